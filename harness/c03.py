"""C03 — the same model and seeds give the same run, every time and in every process.

What a solver can vary is everything that reaches the code as a value.  'Preceding activity in the
interpreter', 'hash randomisation' and 'wall-clock time' are therefore modelled as arbitrary values of the
state / environment functions through which they act, and the check is non-interference: the run must
not depend on them.  Counterexamples about hash randomisation are replayed for real in two
interpreters with different PYTHONHASHSEED values."""
from __future__ import annotations

import json
import os
import subprocess
import sys

import happysimulator.core.simulation as sim_mod
import happysimulator.sketching.count_min_sketch as cms_mod
from happysimulator.sketching.count_min_sketch import CountMinSketch

from harness.c01 import NKINDS, Model, _params
from vf.harness import H
from vf.sym import Result, Sym

_NOFLAGS = {"daemon1": 0, "daemon2": 0, "cancel1": 0, "cdm0a": 0, "cdm1a": 0}


def _run(P, prefix="", between=None):
    m = Model(P)
    m.make_sim()
    m.schedule()
    if between is not None:
        between()           # unrelated activity after the model is built and before it runs
    m.sim.run()
    return m.deliveries(), m.sim._events_processed


def prior_activity(sym, tier):
    """Run model A, then an unrelated model B (its own symbolic program), then A again in the same
    interpreter: A's two delivery sequences and counters are identical."""
    r = Result()
    PA = _params(sym, tier)
    first = _run(PA)
    # unrelated activity in between: a different program with its own symbolic draws, plus loose events
    sub = Sym(sym.mode, forced=sym.forced, recorded=None)
    sub.int = lambda name, lo, hi, _s=sym: _s.int("B_" + name, lo, hi)        # draws of B are prefixed
    sub.choice = lambda name, n, _s=sym: _s.choice("B_" + name, n)
    sub.bool = lambda name, _s=sym: _s.bool("B_" + name)
    PB = _params(sub, tier)
    _run(PB)
    from harness.common import Recorder, mk_event
    junk = Recorder("junk", [])
    for i in range(sym.int("loose_events_created", 0, 3)):
        mk_event(i, "loose", junk)                  # events created outside any simulation advance the global counter
    def other_sim_built():
        if sym.bool("another_simulation_constructed_before_run"):
            from happysimulator.core.simulation import Simulation
            other = Simulation(entities=[Recorder("other", [])])
            for i in range(sym.int("events_created_for_it", 0, 2)):
                mk_event(i, "other", other._entities[0])

    second = _run(PA, between=other_sim_built)
    if first != second:
        r.bad("run_does_not_depend_on_preceding_activity", {"first": first, "second": second})
    if len(first[0]) >= 3:
        r.wit.add("three_deliveries")
    r.obs = {"log": first[0]}
    return r


class _WallClock:
    def __init__(self, sym, tag):
        # all readings are drawn up front: the number of monotonic() calls differs between the symbolic
        # run (summary stubbed) and the plain replay
        self.steps = [sym.int(f"{tag}_wall_step{i}", 0, 1000) for i in range(1, 4)]
        self.t, self.n = 0, 0

    def monotonic(self):
        if self.n < len(self.steps):
            self.t = self.t + self.steps[self.n]
        self.n += 1
        return float(self.t)


def wall_clock(sym, tier):
    """The wall clock (time.monotonic as seen by the engine) returns arbitrary non-decreasing values: the
    delivery sequence and counters of the run do not depend on it."""
    r = Result()
    P = _params(sym, tier)
    real = sim_mod._time
    outs = []
    try:
        for tag in ("a", "b"):
            sim_mod._time = _WallClock(sym, tag)
            outs.append(_run(P))
    finally:
        sim_mod._time = real
    if outs[0] != outs[1]:
        r.bad("run_does_not_depend_on_wall_clock", outs)
    if len(outs[0][0]) >= 2:
        r.wit.add("two_deliveries")
    r.obs = {"log": outs[0][0]}
    return r


ITEMS = ["alpha", "beta", "gamma"]
_CHILD = r"""
import json, sys
sys.path.insert(0, "/repo")
from happysimulator.sketching.count_min_sketch import CountMinSketch
stream = json.loads(sys.argv[1])
s = CountMinSketch(width=2, depth=2, seed=7)
for it in stream:
    s.add(it)
print(json.dumps({"est": [s.estimate(i) for i in ["alpha", "beta", "gamma"]], "counters": s._counters}))
"""


def hash_randomisation(sym, tier):
    """Count-Min sketch fed the same stream of str items under two arbitrary assignments of builtin
    hash() values (that is all PYTHONHASHSEED changes): estimates and counters must coincide.  In replay
    mode the same stream is run in fresh interpreters with PYTHONHASHSEED=0..11 and compared."""
    r = Result()
    n = 3
    stream = [ITEMS[sym.choice(f"item{i}", 3)] for i in range(n)]
    if sym.mode == Sym.REPLAY:
        outs = {}
        for seed in range(12):
            env = dict(os.environ, PYTHONHASHSEED=str(seed))
            p = subprocess.run([sys.executable, "-c", _CHILD, json.dumps(stream)], capture_output=True, text=True, env=env, timeout=120)
            outs[seed] = p.stdout.strip()
        # the symbolic run drew hash values; consume them so that the draw sequences agree
        for tag in ("h1", "h2"):
            for it in ITEMS:
                sym.int(f"{tag}_{it}", 0, 3)
        distinct = sorted(set(outs.values()))
        if len(distinct) > 1:
            r.bad("sketch_results_do_not_depend_on_hash_randomisation", {"stream": stream, "distinct_results_over_12_seeds": distinct[:3]})
        if len(set(stream)) > 1:
            r.wit.add("two_distinct_items")
        r.obs = {"stream": stream}
        return r
    results = []

    class _FakeSha:
        """Stand-in for hashlib.sha256 + struct (C functions): the identity on the packed integer, so the
        row hash stays a function of hash(item) that the solver can see."""

        def __init__(self, data=None):
            self.v = 0
            if data is not None:
                self.update(data)

        def update(self, b):
            if isinstance(b, (bytes, bytearray)):      # concrete bytes: the real digest (a stable function of the item)
                import hashlib as _real
                b = int.from_bytes(_real.sha256(bytes(b)).digest()[:8], "big")
            self.v = b

        def digest(self):
            return [self.v]

    class _FakeHashlib:
        @staticmethod
        def sha256(data=None):
            return _FakeSha(data)

    class _FakeStruct:
        @staticmethod
        def pack(fmt, *vals):
            return vals[0]

        @staticmethod
        def unpack(fmt, data):
            return (data[0],)

    for tag in ("h1", "h2"):
        table = {}
        for it in ITEMS:
            table[it] = sym.int(f"{tag}_{it}", 0, 3)
        s = CountMinSketch(width=2, depth=2, seed=7)       # real seeds, computed with the real hashlib
        saved = {k: cms_mod.__dict__.get(k) for k in ("hash", "hashlib", "struct")}
        cms_mod.hash = lambda item, _t=table: _t[item] if item in _t else 0
        cms_mod.hashlib, cms_mod.struct = _FakeHashlib, _FakeStruct
        try:
            for it in stream:
                s.add(it)
            results.append(([s.estimate(i) for i in ITEMS], [list(x) for x in s._counters]))
        finally:
            for k, v in saved.items():
                if v is None:
                    cms_mod.__dict__.pop(k, None)
                else:
                    setattr(cms_mod, k, v)
    if results[0] != results[1]:
        r.bad("sketch_results_do_not_depend_on_hash_randomisation", {"stream": stream, "a": results[0], "b": results[1]})
    if len(set(stream)) > 1:
        r.wit.add("two_distinct_items")
    r.obs = {"stream": stream}
    return r



# ------------------------------------------------------------------ sketches: no process-wide state between instances
_TRICKY = [True, 1, 1.0, "1", (1, 2), (1.0, 2.0), "alpha"]       # equal-but-differently-printed keys included
_SKETCH_MODS = [("count_min_sketch", "CountMinSketch", {"width": 4, "depth": 2, "seed": 7}),
                ("bloom_filter", "BloomFilter", {"size_bits": 16, "num_hashes": 2, "seed": 7}),
                ("hyperloglog", "HyperLogLog", {"precision": 4, "seed": 7})]


def _fresh_module(name, tag):
    """A private copy of a sketching module (own module globals, so own caches): the in-process stand-in
    for 'a fresh interpreter'."""
    import importlib.util
    import happysimulator.sketching as pkg
    path = os.path.join(os.path.dirname(pkg.__file__), name + ".py")
    spec = importlib.util.spec_from_file_location(f"happysimulator.sketching._verif_{name}_{tag}", path)
    mod = importlib.util.module_from_spec(spec)
    spec.loader.exec_module(mod)
    return mod


def _sketch_state(sk):
    for attr in ("_counters", "_bits", "_registers"):
        if hasattr(sk, attr):
            v = getattr(sk, attr)
            return [list(x) if isinstance(x, (list, tuple)) else x for x in v]
    return None


def sketch_isolation(sym, tier):
    """A sketch fed a stream gives the same state whether or not OTHER sketch instances were used before
    it in the same interpreter (with arbitrary keys, including keys equal to but printed differently
    from the stream's): compared against the same stream run in a private copy of the module."""
    r = Result()
    name, cls, kw = _SKETCH_MODS[sym.choice("sketch", len(_SKETCH_MODS))]
    prior = [_TRICKY[sym.choice(f"prior{i}", len(_TRICKY))] for i in range(2)]
    stream = [_TRICKY[sym.choice(f"item{i}", len(_TRICKY))] for i in range(2)]
    shared = _fresh_module(name, "shared")      # per path, so that paths do not influence each other
    alone = _fresh_module(name, "alone")
    other = getattr(shared, cls)(**kw)
    for it in prior:
        other.add(it)
    a = getattr(shared, cls)(**kw)
    b = getattr(alone, cls)(**kw)
    for it in stream:
        a.add(it)
        b.add(it)
    if _sketch_state(a) != _sketch_state(b):
        r.bad("run_does_not_depend_on_preceding_activity", {"sketch": cls, "prior_keys": [repr(x) for x in prior], "stream": [repr(x) for x in stream],
                                                             "after_prior": _sketch_state(a), "alone": _sketch_state(b)})
    if any(p == s_ and repr(p) != repr(s_) for p in prior for s_ in stream):
        r.wit.add("prior_key_equal_but_printed_differently")
    r.obs = {"sketch": cls}
    return r


def classify(clause, draws, obs):
    return None


MANIFEST = {
    "note": "Scope: engine-level state (global event counter, active-context variables) under arbitrary preceding activity; wall clock as seen by "
            "the engine; builtin hash() in CountMinSketch (the only use of builtin hash on items found by grep). The real PYTHONHASHSEED / a second "
            "OS process are exercised only in replay. 'Every component family' and seeded RNG streams are not re-proved.",
}

HARNESSES = [
    H(name="c03_prior_activity", fn=prior_activity, shape="N", budget=lambda tier: 1800.0 if tier == "quick" else 3000.0,
      cubes=lambda tier: ([dict(_NOFLAGS, mode=m, kind0=a, kind1=0, t2=2, B_mode=0, B_kind0=b, B_kind1=0, B_t1=1, B_t2=2, B_daemon1=0, B_daemon2=0, B_cancel1=0,
                               B_cdm0a=0, **({"B_t0": 0, "B_d0b": 0} if tier == "quick" else {}))
                          for m in (0, 1) for a in (1, 3) for b in (1, 2)]
                         if tier != "quick" else
                         [dict(_NOFLAGS, mode=m, kind0=a, kind1=0, t2=2, B_mode=0, B_kind0=b, B_kind1=0, B_t1=1, B_t2=2, B_daemon1=0, B_daemon2=0, B_cancel1=0,
                               B_cdm0a=0, B_t0=0, B_d0b=0, another_simulation_constructed_before_run=o, loose_events_created=le)
                          for m in (0, 1) for a in (1, 3) for b in (1, 2) for o in (0, 1) for le in (0, 2)]),
      require=lambda tier: ["three_deliveries"], classify=classify,
      functions=["reset_event_counter", "_next_sort_index", "_active_sim_context", "EventHeap.seed_event_counter", "Simulation.__init__/run"],
      bounds=lambda tier: {"model A": "C01 scenario program", "activity in between": "a second symbolic program run to completion + loose events created (quick: 0 or 2, thorough: symbolic 0..3), optionally another Simulation constructed before the run"},
      outside=["models with Sources / numpy RNG state", "other processes"]),
    H(name="c03_sketch_isolation", fn=sketch_isolation, shape="N", budget=lambda tier: 600.0,
      cubes=lambda tier: [{"sketch": k} for k in range(len(_SKETCH_MODS))],
      require=lambda tier: ["prior_key_equal_but_printed_differently"], classify=classify,
      functions=["CountMinSketch.add/_hash", "BloomFilter.add/_hash", "HyperLogLog.add/_hash"],
      bounds=lambda tier: {"prior keys": 2, "stream": 2, "key table": [repr(x) for x in _TRICKY], "reference": "same stream in a private copy of the module (own module globals)"},
      outside=["state shared through other modules than the sketch's own"]),
    H(name="c03_wall_clock", fn=wall_clock, shape="N", budget=lambda tier: 900.0,
      cubes=lambda tier: [dict(_NOFLAGS, mode=m, kind0=a, kind1=0, t2=2) for m in (0, 1, 2) for a in (1, 2, 3)],
      require=lambda tier: ["two_deliveries"], classify=classify,
      functions=["Simulation.run/_run_loop/_execute_until (time.monotonic reads)"],
      bounds=lambda tier: {"wall clock": "arbitrary non-decreasing readings (3 symbolic steps)"},
      assumptions=["Simulation._build_summary (which reports wall-clock seconds) is stubbed during symbolic execution"]),
    H(name="c03_hash_randomisation", fn=hash_randomisation, shape="N", budget=lambda tier: 600.0,
      require=lambda tier: ["two_distinct_items"], classify=classify,
      functions=["CountMinSketch._hash/add/estimate"],
      bounds=lambda tier: {"stream": "3 str items over 3 values", "hash()": "two arbitrary value assignments in [0,3]; replay: PYTHONHASHSEED 0..11 in fresh interpreters"},
      outside=["set-iteration order over str in component code (no use found by grep)", "components other than CountMinSketch (no builtin hash() on items)"]),
]
