"""C13 — membership: no false deaths on a healthy network, real failures are detected."""
from __future__ import annotations

import itertools

import happysimulator.components.consensus.membership as mem_mod
from happysimulator.components.consensus.membership import MemberState, MembershipProtocol
from happysimulator.components.consensus.phi_accrual_detector import PhiAccrualDetector
from happysimulator.components.network.link import NetworkLink
from happysimulator.components.network.network import Network
from happysimulator.core.clock import Clock
from happysimulator.core.simulation import Simulation
from happysimulator.core.temporal import Instant
from happysimulator.distributions.constant import ConstantLatency

from harness.common import Monitor, SpinDetected, mk_event
from vf.harness import H
from vf.sym import Result

STATES = [MemberState.ALIVE, MemberState.SUSPECT, MemberState.DEAD]
STATE_STR = ["alive", "suspect", "dead"]


class _SymRandom:
    """random.shuffle replaced by an arbitrary permutation chosen by the solver."""

    def __init__(self, sym, symbolic_calls=10**9):
        self.sym = sym
        self.n = 0
        self.symbolic_calls = symbolic_calls

    def shuffle(self, lst):
        self.n += 1
        if len(lst) < 2 or self.n > self.symbolic_calls:
            return          # later shuffles keep the order (bounds the number of paths)
        perms = list(itertools.permutations(range(len(lst))))
        k = self.sym.choice(f"shuffle{self.n}", len(perms))
        items = list(lst)
        lst[:] = [items[i] for i in perms[k]]

    def random(self):
        return 0.5


def updates_lemma(sym, tier):
    """From an arbitrary view (state, incarnation) of a peer, any one handler input — a piggy-backed
    update list (<=2 entries), a ping, an ack or a suspicion timeout — never turns DEAD into ALIVE
    without a strictly higher incarnation, never lowers an incarnation, and reaches DEAD only from
    SUSPECT via the timeout or via a 'dead' update that is not older than the view."""
    r = Result()
    mem_mod.random = _SymRandom(sym)
    net = Network(name="net")
    clock = Clock(Instant(5_000_000_000))
    net.set_clock(clock)
    a = MembershipProtocol("a", net)
    b = MembershipProtocol("b", net)
    c = MembershipProtocol("c", net)
    for x in (a, b, c):
        x.set_clock(clock)
    a.add_member(b)
    a.add_member(c)
    info = a._members["b"]
    st0 = sym.choice("state", 3)
    inc0 = sym.int("incarnation", 0, 2)
    info.state, info.incarnation = STATES[st0], inc0
    kind = sym.choice("input", 4)       # 0 updates via ping, 1 ack from b, 2 ping from b, 3 suspicion timeout
    ups = []
    if kind == 0:
        for k in range(1 + sym.choice("n_updates_minus_1", 2)):
            ups.append({"member": "b", "state": STATE_STR[sym.choice(f"u{k}_state", 3)], "incarnation": sym.int(f"u{k}_inc", 0, 3)})
        a.handle_event(net.send(source=c, destination=a, event_type="MembershipPing",
                                payload={"from": "c", "incarnation": 0, "updates": ups}, daemon=True))
    elif kind == 1:
        a.handle_event(net.send(source=b, destination=a, event_type="MembershipAck",
                                payload={"from": "b", "ack_for": "a", "incarnation": sym.int("msg_inc", 0, 3), "updates": []}, daemon=True))
    elif kind == 2:
        a.handle_event(net.send(source=b, destination=a, event_type="MembershipPing",
                                payload={"from": "b", "incarnation": sym.int("msg_inc", 0, 3), "updates": []}, daemon=True))
    else:
        a.handle_event(mk_event(5_000_000_000, "x", a).__class__(time=Instant(5_000_000_000), event_type="MembershipSuspicionTimeout",
                                                                  target=a, context={"metadata": {"suspect": "b"}}))
    st1, inc1 = info.state, info.incarnation
    if inc1 < inc0:
        r.bad("incarnation_never_decreases", inc0, inc1)
    if STATES[st0] == MemberState.DEAD and st1 == MemberState.ALIVE:
        r.wit.add("dead_to_alive")
        if not (inc1 > inc0):
            r.bad("dead_member_alive_again_only_with_higher_incarnation", {"before": [STATE_STR[st0], inc0], "after": ["alive", inc1], "updates": ups})
    if STATES[st0] != MemberState.DEAD and st1 == MemberState.DEAD:
        r.wit.add("became_dead")
        if kind == 3:
            if STATES[st0] != MemberState.SUSPECT:
                r.bad("timeout_kills_only_suspects", STATE_STR[st0])
        elif kind == 0:
            if not any(u["state"] == "dead" and u["incarnation"] >= inc0 for u in ups):
                r.bad("dead_only_via_current_dead_update", ups, inc0)
        else:
            r.bad("ack_or_ping_never_kills", kind)
    r.obs = {"before": [STATE_STR[st0], inc0], "after": [st1.name, inc1]}
    return r


PHI_TIMES = [0.0, 0.5, 1.0, 1.5, 2.0, 3.0, 5.0, 8.0]
PHI_INTERVALS = [0.5, 1.0, 1.5, 3.0]


def phi_monotone(sym, tier):
    """phi(t) never decreases while no heartbeat arrives (interval history and query instants from
    concrete tables so that erfc/log10/sqrt are evaluated natively)."""
    r = Result()
    d = PhiAccrualDetector(threshold=8.0, initial_interval=1.0)
    t = 10.0
    d.heartbeat(t)
    for k in range(3):
        t = t + PHI_INTERVALS[sym.choice(f"interval{k}", len(PHI_INTERVALS))]
        d.heartbeat(t)
    i = sym.choice("t1", len(PHI_TIMES) - 1)
    j = i + 1 + sym.choice("dt", len(PHI_TIMES) - 1 - i) if i < len(PHI_TIMES) - 1 else i
    p1, p2 = d.phi(t + PHI_TIMES[i]), d.phi(t + PHI_TIMES[j])
    if p2 < p1:
        r.bad("phi_never_decreases_without_heartbeat", PHI_TIMES[i], PHI_TIMES[j], p1, p2)
    if p2 > p1:
        r.wit.add("phi_grows")
    if d.phi(t + 100.0) < 8.0:
        r.bad("phi_eventually_exceeds_threshold", d.phi(t + 100.0))
    r.obs = {"p1": p1, "p2": p2}
    return r


def cluster_run(sym, tier):
    """3 real MembershipProtocol nodes on a real Network (5 ms links) in the real engine; every probe
    order is a solver-chosen permutation.  Healthy: nobody is ever DEAD anywhere.  With one member
    crashed from a symbolic round on: the others stop reporting it ALIVE by the end of the run."""
    r = Result()
    mem_mod.random = _SymRandom(sym, symbolic_calls=8 if tier == "quick" else 11)
    R = 14
    crash_round = sym.choice("crash_round", 3)          # 0 = never, 1/2 = member c crashes at that second
    link_s = [0.005, 0.25][sym.choice("link_latency", 2)]   # 5 ms, or a quarter of the probe interval (still healthy: every message is delivered)
    net = Network(name="net")
    nodes = [MembershipProtocol(n, net, probe_interval=1.0, suspicion_timeout=2.0) for n in ("a", "b", "c")]
    for x in nodes:
        for y in nodes:
            if x is not y:
                x.add_member(y)
                net.add_link(x, y, NetworkLink(name=f"{x.name}-{y.name}", latency=ConstantLatency(link_s)))
    sim = Simulation(entities=[net] + nodes, end_time=Instant.from_seconds(R + 0.9))
    mon = Monitor(sim, cap=60)
    false_dead = []

    def check(ev):
        for x in nodes:
            if getattr(x, "_crashed", False):
                continue
            for y in nodes:
                if x is y:
                    continue
                st = x.get_member_state(y.name)
                if st == MemberState.DEAD and not getattr(y, "_crashed", False):
                    false_dead.append((x.name, y.name, sim._clock.now.nanoseconds))

    sim.control.on_event(check)
    evs = []
    for x in nodes:
        evs.extend(x.start())
    if crash_round:
        def crash(e):
            nodes[2]._crashed = True
        from happysimulator.core.event import Event
        evs.append(Event.once(time=Instant.from_seconds(crash_round + 0.5), event_type="crash_c", fn=crash))
    evs.append(mk_event(int((R + 0.8) * 1e9), "keepalive", nodes[0]))
    sim.schedule(evs)
    try:
        sim.run()
    except SpinDetected:
        pass
    mon.judge(r, "membership")
    if false_dead:
        r.bad("no_live_member_is_ever_marked_dead", false_dead[0])
    if crash_round:
        r.wit.add("member_crashed")
        for x in nodes[:2]:
            if x.get_member_state("c") == MemberState.ALIVE:
                r.bad("crashed_member_not_reported_alive_after_bounded_rounds", {"observer": x.name, "crash_at_s": crash_round + 0.5, "end_s": R + 0.9,
                      "observer_ever_heard_from_it": x._members["c"].detector.last_heartbeat is not None})
    else:
        for x in nodes:
            for y in nodes:
                if x is not y and x.get_member_state(y.name) == MemberState.DEAD:
                    r.bad("no_live_member_is_ever_marked_dead", x.name, y.name)
    r.obs = {"crash_round": crash_round, "states": {x.name: {y.name: x.get_member_state(y.name).name for y in nodes if y is not x} for x in nodes}}
    return r


_LAT_S = [0.005, 0.25, 0.4]
_RUMOUR_S = [0.3, 0.7, 1.2, 1.6, 2.2, 2.6, 3.3, 3.7]


def probe_cycle(sym, tier):
    """3 live, responsive nodes; the a<->b links are slow (one-way up to 0.4 x probe interval, so the
    ack can arrive after the indirect-probe timer has armed a suspicion timer) and a 'suspect b'
    rumour (a transient phi suspicion at a third node) reaches a at a symbolic instant.  An
    acknowledged probe leaves no timer behind that could later declare b DEAD."""
    r = Result()
    mem_mod.random = _SymRandom(sym, symbolic_calls=5 if tier == "quick" else 8)
    R = 7
    ab = _LAT_S[sym.choice("latency_a_to_b", 3)]
    ba = _LAT_S[sym.choice("latency_b_to_a", 3)]
    rumour_at = _RUMOUR_S[sym.choice("rumour_at", len(_RUMOUR_S))]
    net = Network(name="net")
    nodes = [MembershipProtocol(n, net, probe_interval=1.0, suspicion_timeout=2.0) for n in ("a", "b", "c")]
    a, b, c = nodes
    for x in nodes:
        for y in nodes:
            if x is not y:
                lat = ab if (x is a and y is b) else ba if (x is b and y is a) else 0.005
                x.add_member(y)
                net.add_link(x, y, NetworkLink(name=f"{x.name}-{y.name}", latency=ConstantLatency(lat)))
    sim = Simulation(entities=[net] + nodes, end_time=Instant.from_seconds(R + 0.9))
    mon = Monitor(sim, cap=60)
    false_dead = []
    seen_suspect = []

    def check(ev):
        for x in nodes:
            for y in nodes:
                if x is not y and x.get_member_state(y.name) == MemberState.DEAD:
                    false_dead.append((x.name, y.name, sim._clock.now.nanoseconds))
        if a.get_member_state("b") == MemberState.SUSPECT:
            seen_suspect.append(1)

    sim.control.on_event(check)
    evs = []
    for x in nodes:
        evs.extend(x.start())
    from happysimulator.core.event import Event

    def rumour(e):
        return [net.send(source=c, destination=a, event_type="MembershipPing",
                         payload={"from": "c", "incarnation": 0, "updates": [{"member": "b", "state": "suspect", "incarnation": 0}]}, daemon=True)]
    evs.append(Event.once(time=Instant.from_seconds(rumour_at), event_type="rumour", fn=rumour))
    evs.append(mk_event(int((R + 0.8) * 1e9), "keepalive", a))
    sim.schedule(evs)
    try:
        sim.run()
    except SpinDetected:
        pass
    mon.judge(r, "membership")
    if false_dead:
        r.bad("no_live_member_is_ever_marked_dead", {"observer_member_ns": false_dead[0], "a_to_b_s": ab, "b_to_a_s": ba, "rumour_at_s": rumour_at})
    if seen_suspect:
        r.wit.add("rumour_made_b_suspect_at_a")
    if ab + ba >= 0.5:
        r.wit.add("ack_after_indirect_probe_timer")
    r.obs = {"states": {x.name: {y.name: x.get_member_state(y.name).name for y in nodes if y is not x} for x in nodes}}
    return r


def classify(clause, draws, obs):
    """Known finding: an observer that never received a heartbeat from the crashed member has an empty
    phi history (phi == 0 for ever) and never suspects it."""
    import json
    if clause.startswith("crashed_member_not_reported_alive_after_bounded_rounds"):
        try:
            d = json.loads(clause.split(": ", 1)[1])
        except Exception:
            return None
        if d.get("observer_ever_heard_from_it") is False:
            return "never-heard-member-is-never-suspected"
    return None


MANIFEST = {
    "note": "Cluster runs use one configuration (3 nodes, probe interval 1 s, suspicion timeout 2 s, phi threshold 8, 5 ms links); the solver "
            "varies every probe order (random.shuffle -> arbitrary permutation) and the crash round. phi is evaluated on concrete tables "
            "(math.erfc/log10 are C functions). Continuous parameter ranges and larger clusters are outside the claim.",
}

HARNESSES = [
    H(name="c13_updates_lemma", fn=updates_lemma, shape="I", budget=lambda tier: 900.0,
      cubes=lambda tier: [{"state": s, "input": k} for s in range(3) for k in range(4)],
      require=lambda tier: ["dead_to_alive", "became_dead"], classify=classify,
      functions=["MembershipProtocol._apply_updates", "MembershipProtocol._handle_ping", "MembershipProtocol._handle_ack", "MembershipProtocol._handle_suspicion_timeout"],
      bounds=lambda tier: {"view": "symbolic (state, incarnation in [0,2])", "input": "<=2 updates with symbolic state/incarnation | ack | ping | suspicion timeout"}),
    H(name="c13_probe_cycle", fn=probe_cycle, shape="S", budget=lambda tier: 900.0 if tier == "quick" else 3000.0,
      cubes=lambda tier: [{"latency_a_to_b": i, "latency_b_to_a": j} for i in range(3) for j in range(3)],
      require=lambda tier: ["rumour_made_b_suspect_at_a", "ack_after_indirect_probe_timer"], classify=classify,
      functions=["MembershipProtocol._handle_probe_tick/_handle_ack/_handle_indirect_ping/_handle_suspicion_timeout/_apply_updates", "Network.send", "Simulation.run"],
      bounds=lambda tier: {"cluster": "3 live nodes, probe interval 1 s, suspicion timeout 2 s, 7 rounds", "a<->b one-way latency": _LAT_S,
                           "rumour": "'suspect b' (incarnation 0) piggy-backed on a ping from c to a at one of %s s" % _RUMOUR_S,
                           "probe orders": "first 5 (quick) / 8 (thorough) shuffles symbolic"},
      assumptions=["a third node may transiently suspect a live member and gossip it (phi false suspicion)"],
      outside=["one-way delays above 0.4 x probe interval", "more than one rumour"]),
    H(name="c13_phi_monotone", fn=phi_monotone, shape="K", budget=lambda tier: 900.0,
      cubes=lambda tier: [{"interval0": a} for a in range(len(PHI_INTERVALS))],
      require=lambda tier: ["phi_grows"], classify=classify,
      functions=["PhiAccrualDetector.heartbeat/phi/_mean/_std"],
      bounds=lambda tier: {"interval history": "3 intervals from %s" % PHI_INTERVALS, "query offsets": PHI_TIMES},
      outside=["interval histories / instants off the tables", "libm rounding"]),
    H(name="c13_cluster_run", fn=cluster_run, shape="S", budget=lambda tier: 900.0 if tier == "quick" else 3000.0,
      cubes=lambda tier: [{"crash_round": c, "link_latency": l, "shuffle1": a, "shuffle2": b} for c in range(3) for l in range(2) for a in range(2) for b in range(2)],
      require=lambda tier: ["member_crashed"], classify=classify,
      functions=["MembershipProtocol.start/_handle_probe_tick/_handle_ping/_handle_ack/_handle_indirect_ping/_handle_suspicion_timeout/_next_probe_target/_suspect_member",
                 "PhiAccrualDetector.is_available", "Network.handle_event", "NetworkLink.handle_event"],
      bounds=lambda tier: {"nodes": 3, "rounds": 14, "probe orders": "every permutation at the first %d shuffles, identity afterwards" % (8 if tier == "quick" else 11), "crash": "never | member c at 1.5 s | at 2.5 s", "link latency s": [0.005, 0.25]},
      outside=["clusters larger than 3", "other probe intervals / suspicion timeouts / thresholds", "message delays other than 5 ms / 250 ms"]),
]
