"""C06 — injected faults act exactly during their windows and isolate only their target."""
from __future__ import annotations

from happysimulator.components.network.link import NetworkLink
from happysimulator.components.network.network import Network
from happysimulator.components.resource import Resource
from happysimulator.core.entity import Entity
from happysimulator.core.simulation import Simulation
from happysimulator.core.temporal import Instant
from happysimulator.distributions.constant import ConstantLatency
from happysimulator.faults.network_faults import InjectLatency, InjectPacketLoss, NetworkPartition
from happysimulator.faults.node_faults import CrashNode, PauseNode
from happysimulator.faults.resource_faults import ReduceCapacity
from happysimulator.faults.schedule import FaultSchedule

from harness.common import mk_event
from vf.harness import H
from vf.sym import Result

S = 1_000_000_000


class Target(Entity):
    def __init__(self, name, log, sink):
        super().__init__(name)
        self.log = log
        self.sink = sink

    def handle_event(self, event):
        label = event.context["metadata"]["label"]
        self.log.append((self.name, label, "handle", self.now.nanoseconds // S))
        if label.startswith("gen"):
            def gen():
                yield 1.0
                self.log.append((self.name, label, "resume1", self.now.nanoseconds // S))
                yield 1.0
                self.log.append((self.name, label, "resume2", self.now.nanoseconds // S))
                return [mk_event(self.now.nanoseconds, "emit", self.sink)]
            return gen()
        return None


def _windows(sym, n, tag="w"):
    ws = []
    for i in range(n):
        s = sym.int(f"{tag}{i}_start", 0, 4)
        ln = sym.int(f"{tag}{i}_len", 1, 3)
        ws.append((s, s + ln))
    return ws


def _covered(ws, t, skip=()):
    return any(s <= t and t < e for i, (s, e) in enumerate(ws) if i not in skip)


def node_faults(sym, tier):
    r = Result()
    nf = 1 + sym.choice("n_faults_minus_1", 2)
    ws = _windows(sym, nf)
    kinds = [sym.choice(f"fault{i}_is_pause", 2) for i in range(nf)]
    cancel = sym.choice("cancel_handle", nf + 1)      # nf = cancel nothing, else index of the handle cancelled before start
    g = sym.int("gen_probe_at", 0, 4)
    ps = [sym.int(f"probe{i}_at", 0, 7) for i in range(2)]
    log = []
    blog = []
    b = Target("bystander", blog, None)
    t = Target("target", log, b)
    fs = FaultSchedule()
    handles = []
    for i, (s, e) in enumerate(ws):
        handles.append(fs.add(PauseNode("target", start=s, end=e) if kinds[i] else CrashNode("target", at=s, restart_at=e)))
    sim = Simulation(entities=[t, b], fault_schedule=fs)
    if cancel < nf:
        handles[cancel].cancel()
    evs = [mk_event(g * S, "gen", t)] + [mk_event(p * S, f"probe{i}", t) for i, p in enumerate(ps)]
    evs += [mk_event(p * S, f"bprobe{i}", b) for i, p in enumerate(ps)]
    evs.append(mk_event(9 * S, "keepalive", b))       # fault events are daemons: keep the run alive past every window
    sim.schedule(evs)
    sim.run()
    skip = (cancel,) if cancel < nf else ()
    cov = lambda x: _covered(ws, x, skip)
    for (_n, label, what, sec) in log:
        if cov(sec):
            r.bad("crashed_entity_executes_nothing", {"label": label, "what": what, "at_s": sec, "windows": ws, "cancelled": list(skip)})
            break
    for i, p in enumerate(ps):
        n = len([1 for (_n, l, w, s_) in log if l == f"probe{i}" and w == "handle"])
        if not cov(p) and n != 1:
            r.bad("event_outside_fault_windows_is_processed", {"probe": i, "at_s": p, "handled": n, "windows": ws, "cancelled": list(skip)})
        nb = len([1 for (_n, l, w, s_) in blog if l == f"bprobe{i}"])
        if nb != 1:
            r.bad("bystander_unaffected", i, nb)
    emitted = [s_ for (_n, l, w, s_) in blog if l == "emit"]
    if not cov(g) and not cov(g + 1) and not cov(g + 2):
        if emitted != [g + 2]:
            r.bad("process_untouched_by_faults_completes", {"gen_at": g, "emits": emitted, "windows": ws, "cancelled": list(skip)})
        r.wit.add("process_completes")
    for e_ in emitted:
        if cov(e_):
            r.bad("crashed_entity_emits_nothing", e_, ws)
    if not cov(g) and (cov(g + 1) or cov(g + 2)):
        r.wit.add("process_in_flight_at_crash")
    if nf == 2 and cancel == nf and ws[0][0] < ws[1][1] and ws[1][0] < ws[0][1]:
        r.wit.add("overlapping_windows")
    if cancel < nf:
        r.wit.add("handle_cancelled")
    if getattr(t, "_crashed", False):
        r.bad("target_restored_after_all_windows", ws)
    r.obs = {"log": [list(x[1:]) for x in log], "windows": ws}
    return r


def node_classify(clause, draws, obs):
    return None


# ------------------------------------------------------------------ network / resource faults
class Sender(Entity):
    def __init__(self, name, net, dest, log):
        super().__init__(name)
        self.net, self.dest, self.log = net, dest, log

    def handle_event(self, event):
        md = event.context["metadata"]
        if event.event_type == "msg":                      # reverse traffic arriving at the sender
            if self.log is not None:
                self.log.append((md.get("label"), md.get("sent_at"), self.now.nanoseconds))
            return None
        label = md["label"]
        return self.net.send(self, self.dest, "msg", payload={"label": label, "sent_at": self.now.nanoseconds})


class Receiver(Entity):
    def __init__(self, name, log):
        super().__init__(name)
        self.log = log

    def handle_event(self, event):
        md = event.context["metadata"]
        if event.event_type != "msg" and getattr(self, "reply_to", None) is not None and md.get("label") != "keepalive":
            return self.net.send(self, self.reply_to, "msg", payload={"label": md["label"], "sent_at": self.now.nanoseconds})
        if md.get("label") != "keepalive":
            self.log.append((md.get("label"), md.get("sent_at"), self.now.nanoseconds))


BASE_MS = 100
EXTRA_MS = 250


def network_faults(sym, tier):
    r = Result()
    kind = sym.choice("kind", 4)              # 0 partition, 1 +latency, 2 loss(1.0), 3 one-way partition a -> b
    nf = 1 + sym.choice("n_faults_minus_1", 2)
    ws = _windows(sym, nf)
    cancel = sym.choice("cancel_handle", nf + 1)
    ps = [sym.int(f"probe{i}_at", 0, 7) for i in range(2 if tier == "quick" else 3)]
    rlog, olog = [], []
    net = Network(name="net")
    rcv = Receiver("b", rlog)
    other = Receiver("c", olog)
    alog = []
    snd = Sender("a", net, rcv, alog)
    rcv.net, rcv.reply_to = net, snd
    snd2 = Sender("a2", net, other, None)
    net.add_link(snd, rcv, NetworkLink(name="a-b", latency=ConstantLatency(BASE_MS / 1000.0)))
    net.add_link(rcv, snd, NetworkLink(name="b-a", latency=ConstantLatency(BASE_MS / 1000.0)))
    net.add_link(snd2, other, NetworkLink(name="a2-c", latency=ConstantLatency(BASE_MS / 1000.0)))
    fs = FaultSchedule()
    handles = []
    for (s, e) in ws:
        if kind in (0, 3):
            handles.append(fs.add(NetworkPartition(["a"], ["b"], start=s, end=e, asymmetric=(kind == 3))))
        elif kind == 1:
            handles.append(fs.add(InjectLatency("a", "b", extra_ms=EXTRA_MS, start=s, end=e)))
        else:
            handles.append(fs.add(InjectPacketLoss("a", "b", loss_rate=1.0, start=s, end=e)))
    sim = Simulation(entities=[net, snd, snd2, rcv, other], fault_schedule=fs)
    if cancel < nf:
        handles[cancel].cancel()
    evs = []
    for i, p in enumerate(ps):
        evs.append(mk_event(p * S, f"m{i}", snd))
        evs.append(mk_event(p * S, f"o{i}", snd2))
        if kind in (0, 3):
            evs.append(mk_event(p * S, f"r{i}", rcv))          # reverse direction b -> a
    evs.append(mk_event(9 * S, "keepalive", other))
    sim.schedule(evs)
    sim.run()
    skip = (cancel,) if cancel < nf else ()
    for i, p in enumerate(ps):
        cov = _covered(ws, p, skip)
        got = [(s_, t_) for (l, s_, t_) in rlog if l == f"m{i}"]
        oth = [(s_, t_) for (l, s_, t_) in olog if l == f"o{i}"]
        if oth != [(p * S, p * S + BASE_MS * 1_000_000)]:
            r.bad("other_link_unaffected", i, oth)
        if kind in (0, 3):
            rev = [(s_, t_) for (l, s_, t_) in alog if l == f"r{i}"]
            if kind == 0 and cov and rev:
                r.bad("two_way_partition_blocks_the_reverse_direction", {"at_s": p, "windows": ws, "cancelled": list(skip)})
            if (kind == 3 or not cov) and rev != [(p * S, p * S + BASE_MS * 1_000_000)]:
                r.bad("reverse_direction_delivered_normally_when_not_blocked", {"kind": kind, "at_s": p, "got": rev, "windows": ws, "cancelled": list(skip)})
        if kind in (0, 2, 3):
            if cov and got:
                r.bad("message_during_fault_window_is_dropped", {"kind": kind, "at_s": p, "windows": ws, "cancelled": list(skip)})
            if not cov and got != [(p * S, p * S + BASE_MS * 1_000_000)]:
                r.bad("message_outside_fault_windows_is_delivered_normally", {"kind": kind, "at_s": p, "got": got, "windows": ws, "cancelled": list(skip)})
        else:
            if len(got) != 1:
                r.bad("latency_fault_does_not_lose_messages", i, got)
            else:
                delay_ms = (got[0][1] - got[0][0]) // 1_000_000
                if cov and delay_ms < BASE_MS + EXTRA_MS:
                    r.bad("latency_fault_in_effect_during_window", {"at_s": p, "delay_ms": delay_ms, "windows": ws, "cancelled": list(skip)})
                if not cov and delay_ms != BASE_MS:
                    r.bad("latency_back_to_configured_outside_windows", {"at_s": p, "delay_ms": delay_ms, "windows": ws, "cancelled": list(skip)})
        if cov:
            r.wit.add("probe_inside_window")
    link = net.get_link("a", "b")
    if net.is_partitioned("a", "b") or link.packet_loss_rate != 0.0 or link.latency.get_latency(Instant(0)).nanoseconds != BASE_MS * 1_000_000:
        r.bad("network_back_to_configured_state_after_all_windows", kind, ws)
    if nf == 2 and cancel == nf and ws[0][0] < ws[1][1] and ws[1][0] < ws[0][1]:
        r.wit.add("overlapping_windows")
    r.obs = {"kind": kind, "windows": ws, "rlog": rlog}
    return r


def capacity_fault(sym, tier):
    """ReduceCapacity: capacity is reduced exactly inside the window; afterwards capacity,
    and held + available == capacity, are back to the configured state."""
    r = Result()
    ws = _windows(sym, 1)
    (s, e) = ws[0]
    res = Resource("pool", 4)
    hold_from = sym.int("hold_from", 0, 6)
    hold_len = sym.int("hold_len", 1, 4)
    amount = sym.int("amount", 1, 2)      # never above the reduced capacity (acquire() rejects larger requests by contract)
    obs = []

    class User(Entity):
        def handle_event(self, event):
            g = yield res.acquire(amount)
            obs.append(("got", self.now.nanoseconds // S, res.capacity, res.available))
            yield float(hold_len) if False else HOLD[hold_len]
            g.release()
            obs.append(("rel", self.now.nanoseconds // S, res.capacity, res.available))

    class Probe(Entity):
        def handle_event(self, event):
            obs.append(("probe", self.now.nanoseconds // S, res.capacity, res.available))

    u, p = User("u"), Probe("p")
    fs = FaultSchedule()
    fs.add(ReduceCapacity("pool", factor=0.5, start=s, end=e))
    sim = Simulation(entities=[res, u, p], fault_schedule=fs)
    evs = [mk_event(hold_from * S, "use", u)] + [mk_event(t * S + S // 2, f"probe{t}", p) for t in range(0, 9)]
    sim.schedule(evs)
    sim.run()
    for (what, t, cap, avail) in obs:
        if what == "probe":
            inside = s <= t and t < e
            if inside and cap != 2:
                r.bad("capacity_reduced_inside_window", t, cap)
            if not inside and cap != 4:
                r.bad("capacity_configured_outside_window", t, cap)
    if res.capacity != 4 or res.available != 4:
        r.bad("resource_back_to_configured_state", {"capacity": res.capacity, "available": res.available, "window": ws,
                                                     "hold": [hold_from, hold_from + hold_len], "amount": amount})
    if hold_from < e and s < hold_from + hold_len:
        r.wit.add("grant_held_across_window_edge")
    r.obs = {"obs": obs}
    return r


HOLD = {1: 1.0, 2: 2.0, 3: 3.0, 4: 4.0}


def cap_classify(clause, draws, obs):
    return None


MANIFEST = {
    "note": "Fault windows and probe instants are symbolic whole seconds (Instant.from_seconds(int) is exact); loss faults use rate 1.0 so "
            "'in effect' is observable per message. Trusted: CrossHair/z3, the 15-line covered(t) oracle.",
}

HARNESSES = [
    H(name="c06_node_faults", fn=node_faults, shape="S", budget=lambda tier: 900.0 if tier == "quick" else 3000.0,
      cubes=lambda tier: [dict({"n_faults_minus_1": a, "cancel_handle": c, "fault0_is_pause": k},
                               **({"probe1_at": 7, "fault1_is_pause": 1 - k, "w1_len": 2} if (a == 1 and tier == "quick") else {}))
                          for a in range(2) for c in range(a + 2) for k in range(2)],
      require=lambda tier: ["process_completes", "process_in_flight_at_crash", "overlapping_windows", "handle_cancelled"],
      classify=node_classify,
      functions=["CrashNode.generate_events", "PauseNode.generate_events", "FaultSchedule.add/start", "FaultHandle.cancel", "Event.invoke (crash check)",
                 "ProcessContinuation.invoke"],
      bounds=lambda tier: {"faults on the target": "1-2 crash/pause, windows [s, s+len) symbolic s in [0,4], len in [1,3]", "probes": "2 plain + 1 generator (2 x 1 s delays) at symbolic seconds",
                           "cancelled handle": "none or any one"},
      outside=["faults added after the run started", "queue-fronted targets (see c06_queued_target)"]),
    H(name="c06_network_faults", fn=network_faults, shape="S", budget=lambda tier: 900.0 if tier == "quick" else 3000.0,
      cubes=lambda tier: [{"kind": k, "n_faults_minus_1": a, "cancel_handle": c} for k in range(4) for a in range(2) for c in range(a + 2)],
      require=lambda tier: ["probe_inside_window", "overlapping_windows"],
      functions=["NetworkPartition/InjectLatency/InjectPacketLoss.generate_events", "Network.partition/is_partitioned/handle_event/send", "Partition.heal",
                 "NetworkLink.handle_event/_calculate_delay", "_CompoundLatency.get_latency"],
      bounds=lambda tier: {"faults on link a->b": "1-2 of one kind (two-way partition, one-way partition, extra latency, loss), symbolic windows; reverse-direction probes for the partitions", "probe messages": 2 if tier == "quick" else 3, "loss rate": 1.0, "extra latency ms": EXTRA_MS},
      outside=["probabilistic loss rates in (0,1)", "RandomPartition (seeded random schedule)", "mixed fault kinds on one link"]),
    H(name="c06_capacity_fault", fn=capacity_fault, shape="S", budget=lambda tier: 600.0,
      require=lambda tier: ["grant_held_across_window_edge"], classify=cap_classify,
      functions=["ReduceCapacity.generate_events", "Resource.acquire/_do_release"],
      bounds=lambda tier: {"window": "symbolic", "one grant": "symbolic amount [1,2], held from symbolic second for 1-4 s", "capacity": 4, "factor": 0.5}),
]
