"""C16 — caches stay within capacity, never lose writes, respect staleness bounds."""
from __future__ import annotations

import copy

from happysimulator.components.datastore.cached_store import CachedStore
from happysimulator.components.datastore.eviction_policies import (
    ClockEviction, FIFOEviction, LFUEviction, LRUEviction, RandomEviction, SampledLRUEviction,
    SLRUEviction, TTLEviction, TwoQueueEviction)
from happysimulator.components.datastore.kv_store import KVStore
from happysimulator.core.entity import Entity
from happysimulator.core.simulation import Simulation

from harness.common import Monitor, SpinDetected, mk_event
from vf.harness import H
from vf.sym import Result

POLICY_NAMES = ["lru", "lfu", "ttl", "fifo", "random", "slru", "sampled_lru", "clock", "two_queue"]
KEYS = ["a", "b", "c"]


def _policy(i, clock=None):
    if i == 0:
        return LRUEviction()
    if i == 1:
        return LFUEviction()
    if i == 2:
        return TTLEviction(ttl=2.0, clock_func=clock or (lambda: 0.0))
    if i == 3:
        return FIFOEviction()
    if i == 4:
        return RandomEviction(seed=1)
    if i == 5:
        return SLRUEviction()
    if i == 6:
        return SampledLRUEviction(sample_size=2, seed=1)
    if i == 7:
        return ClockEviction()
    return TwoQueueEviction()


def _drain(policy):
    out = []
    for _ in range(8):
        k = policy.evict()
        if k is None:
            break
        out.append(k)
    return out


def _drive(gen):
    try:
        while True:
            next(gen)
    except StopIteration as e:
        return e.value


def policies(sym, tier):
    """on_insert / on_access / on_remove / evict script on each real policy: evict() returns a tracked key
    (None iff nothing is tracked) and stops tracking it; draining the policy yields exactly the tracked set."""
    r = Result()
    pi = sym.choice("policy", 9)
    now = [0.0]
    p = _policy(pi, clock=lambda: now[0])
    tracked = set()
    n = 4 if tier == "quick" else 5
    nk = 2 if tier == "quick" else 3
    script = []
    for s in range(n):
        op = sym.choice(f"op{s}", 4) if s > 0 else 0
        k = KEYS[sym.choice(f"key{s}", nk)]
        if pi == 2:
            now[0] = now[0] + [0.0, 3.0][sym.choice(f"dt{s}", 2)]
        if op == 0:
            if k in tracked:
                p.on_access(k)          # the cache calls on_insert only for keys it does not hold
                script.append(("access", k))
            else:
                p.on_insert(k)
                tracked.add(k)
                script.append(("insert", k))
        elif op == 1:
            if k in tracked:
                p.on_access(k)
                script.append(("access", k))
        elif op == 2:
            p.on_remove(k)
            tracked.discard(k)
            script.append(("remove", k))
        else:
            e = p.evict()
            script.append(("evict", e))
            if (e is None) != (len(tracked) == 0):
                r.bad("evict_returns_none_iff_nothing_tracked", POLICY_NAMES[pi], script, sorted(tracked))
                break
            if e is not None:
                if e not in tracked:
                    r.bad("evict_returns_a_tracked_key", POLICY_NAMES[pi], script, sorted(tracked))
                    break
                tracked.discard(e)
                r.wit.add("evicted")
    d = _drain(p)
    if sorted(d) != sorted(tracked) or len(set(d)) != len(d):
        r.bad("policy_tracks_exactly_the_inserted_keys", POLICY_NAMES[pi], script, {"drained": d, "expected": sorted(tracked)})
    r.obs = {"policy": POLICY_NAMES[pi], "script": script}
    return r


def store_sequential(sym, tier):
    """get/put/delete/invalidate/flush script (one operation at a time) on a real CachedStore over a real
    KVStore, every policy, both write modes, capacity 1-2."""
    r = Result()
    pi = sym.choice("policy", 9)
    wt = sym.bool("write_through")
    cap = 1 + sym.choice("capacity_minus_1", 2)
    now = [0.0]
    store = KVStore("kv", read_latency=0.001, write_latency=0.002)
    cs = CachedStore("cache", backing_store=store, cache_capacity=cap, eviction_policy=_policy(pi, clock=lambda: now[0]), write_through=wt)
    model = {}
    n = 3 if tier == "quick" else 4
    script = []
    nk = 2
    for s in range(n):
        op = sym.choice(f"op{s}", 5) if s > 0 else 1
        k = KEYS[sym.choice(f"key{s}", nk)]
        if op == 0:
            got = _drive(cs.get(k))
            script.append(("get", k))
            if got != model.get(k):
                r.bad("read_after_completed_write_returns_it", POLICY_NAMES[pi], {"script": script, "got": got, "want": model.get(k), "write_through": wt, "capacity": cap})
                break
        elif op == 1:
            v = sym.int(f"val{s}", 1, 9)
            _drive(cs.put(k, v))
            model[k] = v
            script.append(("put", k))
        elif op == 2:
            _drive(cs.delete(k))
            model.pop(k, None)
            script.append(("delete", k))
        elif op == 3:
            if wt:
                cs.invalidate(k)        # dropping a cached copy is only loss-free when the store already has the data
                script.append(("invalidate", k))
        else:
            _drive(cs.flush())
            script.append(("flush",))
        if cs.cache_size > cap:
            r.bad("cache_never_exceeds_capacity", POLICY_NAMES[pi], script, cs.cache_size, cap)
        if not set(cs.get_dirty_keys()) <= set(cs.get_cached_keys()):
            r.bad("dirty_keys_are_cached", script)
        if pi != 2:
            tracked = _drain(copy.deepcopy(cs._eviction_policy))
            if sorted(tracked) != sorted(cs.get_cached_keys()):
                r.bad("policy_keys_equal_cached_keys", POLICY_NAMES[pi], {"script": script, "policy": sorted(tracked), "cache": sorted(cs.get_cached_keys())})
                break
    if cs.stats.evictions:
        r.wit.add("eviction")
    _drive(cs.flush())
    for k in KEYS[:nk]:
        if store.get_sync(k) != model.get(k):
            if not wt:
                r.bad("write_back_data_reaches_the_backing_store", POLICY_NAMES[pi], {"script": script, "key": k, "store": store.get_sync(k), "want": model.get(k), "capacity": cap})
            else:
                r.bad("write_through_store_holds_last_write", POLICY_NAMES[pi], script, k)
            break
    r.obs = {"policy": POLICY_NAMES[pi], "script": script, "write_through": wt}
    return r


def seq_classify(clause, draws, obs):
    return None


class _Client(Entity):
    def __init__(self, name, body):
        super().__init__(name)
        self.body = body

    def handle_event(self, event):
        return self.body(self)


def store_overlap(sym, tier):
    """A miss-fill (get of an uncached key) overlaps a write-through put to the same key; a later read,
    issued after the put has completed, must see the put's value."""
    r = Result()
    store = KVStore("kv", read_latency=0.001, write_latency=0.002)
    store.put_sync("a", 1)
    cs = CachedStore("cache", backing_store=store, cache_capacity=2, eviction_policy=LRUEviction(), write_through=True)
    put_at = sym.int("put_start_ns", 0, 1_500_000)
    late_at = sym.int("late_read_start_ns", 0, 6_000_000)
    v2 = sym.int("v2", 11, 19)
    ev = {}

    def reader(self):
        b = self.now.nanoseconds
        got = yield from cs.get("a")
        ev["r1"] = (got, b, self.now.nanoseconds)

    def writer(self):
        b = self.now.nanoseconds
        yield from cs.put("a", v2)
        ev["w"] = (v2, b, self.now.nanoseconds)

    def late(self):
        b = self.now.nanoseconds
        got = yield from cs.get("a")
        ev["r2"] = (got, b, self.now.nanoseconds)

    cl = [_Client("r", reader), _Client("w", writer), _Client("l", late)]
    sim = Simulation(entities=[store, cs] + cl)
    mon = Monitor(sim, cap=40)
    sim.schedule([mk_event(0, "go", cl[0]), mk_event(put_at, "go", cl[1]), mk_event(late_at, "go", cl[2])])
    try:
        sim.run()
    except SpinDetected:
        pass
    mon.judge(r, "cache_overlap")
    w, r2 = ev.get("w"), ev.get("r2")
    if w and r2 and r2[1] > w[2]:
        r.wit.add("read_after_put_completed")
        if r2[0] != w[0]:
            r.bad("read_after_completed_write_returns_it", {"late_read": list(r2), "put": list(w), "first_read": list(ev.get("r1", ()))})
    if w and ev.get("r1") and w[1] < ev["r1"][2]:
        r.wit.add("miss_fill_overlaps_put")
    r.obs = {k: list(v) for k, v in ev.items()}
    return r


def overlap_classify(clause, draws, obs):
    return None


MANIFEST = {
    "note": "MultiTierCache and SoftTTLCache are not covered by this check (see outside). TTL policy: clock readings from a concrete table.",
}

HARNESSES = [
    H(name="c16_policies", fn=policies, shape="I", budget=lambda tier: 900.0 if tier == "quick" else 3000.0,
      cubes=lambda tier: [{"policy": a, "op1": b} for a in range(9) for b in range(4)],
      require=lambda tier: ["evicted"], classify=seq_classify,
      functions=["LRUEviction/LFUEviction/TTLEviction/FIFOEviction/RandomEviction/SLRUEviction/SampledLRUEviction/ClockEviction/TwoQueueEviction: on_insert/on_access/on_remove/evict"],
      bounds=lambda tier: {"ops": 4 if tier == "quick" else 5, "keys": 2 if tier == "quick" else 3, "policies": POLICY_NAMES, "random policies": "fixed seed"}),
    H(name="c16_store_sequential", fn=store_sequential, shape="S", budget=lambda tier: 900.0 if tier == "quick" else 3000.0,
      cubes=lambda tier: [{"policy": a, "write_through": w, "capacity_minus_1": c} for a in range(9) for w in range(2) for c in range(2)],
      require=lambda tier: ["eviction"], classify=seq_classify,
      functions=["CachedStore.get/put/delete/invalidate/flush/_cache_put/_cache_remove", "KVStore.get/put/delete"],
      bounds=lambda tier: {"ops": 3 if tier == "quick" else 4, "keys": 2, "capacity": [1, 2], "modes": ["write-through", "write-back"], "values": "symbolic"}),
    H(name="c16_store_overlap", fn=store_overlap, shape="S", budget=lambda tier: 900.0,
      require=lambda tier: ["read_after_put_completed", "miss_fill_overlaps_put"], classify=overlap_classify,
      functions=["CachedStore.get (miss fill)", "CachedStore.put", "KVStore.get/put"],
      bounds=lambda tier: {"scenario": "get(a) miss at 0; put(a,v2) at symbolic ns in [0,1.5 ms]; get(a) at symbolic ns in [0, 6 ms]"},
      outside=["MultiTierCache", "SoftTTLCache hard-TTL bound", "cache_warming", "page_cache"]),
]


def writeback_overlap(sym, tier):
    """Write-back CachedStore under capacity pressure with two overlapping puts to different keys (the
    second starts at a symbolic instant inside or after the first one's latency window): after both
    completed and a flush, the backing store holds both writes, and reads see them."""
    r = Result()
    cap = 1 + sym.choice("capacity_minus_1", 2)
    pol = [LRUEviction(), FIFOEviction(), LFUEviction()][sym.choice("policy", 3)]
    store = KVStore("kv", read_latency=0.001, write_latency=0.002)
    cs = CachedStore("cache", backing_store=store, cache_capacity=cap, eviction_policy=pol, write_through=False, cache_read_latency=0.0005)
    second_at = sym.int("second_put_start_ns", 0, 1_000_000)
    v1, v2 = sym.int("v1", 1, 9), sym.int("v2", 11, 19)
    res = {}

    def w1(self):
        yield from cs.put("k1", v1)
        res["w1_done"] = self.now.nanoseconds

    def w2(self):
        b = self.now.nanoseconds
        yield from cs.put("k2", v2)
        res["w2"] = (b, self.now.nanoseconds)

    def checker(self):
        got1 = yield from cs.get("k1")
        got2 = yield from cs.get("k2")
        n = yield from cs.flush()
        res["reads"] = (got1, got2)

    cl = [_Client("w1", w1), _Client("w2", w2), _Client("chk", checker)]
    sim = Simulation(entities=[store, cs] + cl)
    mon = Monitor(sim, cap=60)
    sim.schedule([mk_event(0, "go", cl[0]), mk_event(second_at, "go", cl[1]), mk_event(50_000_000, "go", cl[2])])
    try:
        sim.run()
    except SpinDetected:
        pass
    mon.judge(r, "writeback_overlap")
    if res.get("reads") != (v1, v2):
        r.bad("read_after_completed_write_returns_it", {"reads": res.get("reads"), "expected": [v1, v2], "capacity": cap})
    if store.get_sync("k1") != v1 or store.get_sync("k2") != v2:
        r.bad("write_back_data_reaches_the_backing_store", {"store": [store.get_sync("k1"), store.get_sync("k2")], "expected": [v1, v2], "capacity": cap,
                                                           "dirty": cs.get_dirty_keys(), "cached": cs.get_cached_keys()})
    if not set(cs.get_dirty_keys()) <= set(cs.get_cached_keys()):
        r.bad("dirty_keys_are_cached", cs.get_dirty_keys(), cs.get_cached_keys())
    if res.get("w2") and res["w2"][0] < res.get("w1_done", 0):
        r.wit.add("puts_overlap")
    if cs.stats.evictions:
        r.wit.add("eviction")
    r.obs = {"reads": res.get("reads"), "capacity": cap}
    return r


HARNESSES.append(
    H(name="c16_writeback_overlap", fn=writeback_overlap, shape="S", budget=lambda tier: 900.0,
      cubes=lambda tier: [{"capacity_minus_1": c, "policy": p} for c in range(2) for p in range(3)],
      require=lambda tier: ["puts_overlap", "eviction"], classify=overlap_classify,
      functions=["CachedStore.put (write-back)/_cache_put/flush/get", "KVStore.put_sync/get"],
      bounds=lambda tier: {"puts": "put(k1) at 0, put(k2) at a symbolic ns in [0, 1 ms] (cache write latency 0.5 ms)", "capacity": [1, 2], "policies": ["lru", "fifo", "lfu"]}))


def flush_overlap(sym, tier):
    """Write-back CachedStore: put(k1); a flush() is started at a symbolic instant and, while it is
    writing k1 to the backing store (2 ms), a put of k2 (or a second put of k1) starts at another
    symbolic instant.  After everything completed and one more flush, the backing store holds the
    latest value of every key, nothing is left dirty, and reads see the latest values - also after
    capacity pressure evicted the key written during the flush."""
    r = Result()
    cap = 1 + sym.choice("capacity_minus_1", 2)
    same_key = sym.bool("second_put_same_key")
    store = KVStore("kv", read_latency=0.001, write_latency=0.002)
    cs = CachedStore("cache", backing_store=store, cache_capacity=cap, eviction_policy=LRUEviction(), write_through=False, cache_read_latency=0.0005)
    flush_at = sym.int("flush_start_us", 400, 1200) * 1000
    put_at = sym.int("second_put_start_us", 0, 4000) * 1000
    v1, v2 = sym.int("v1", 1, 9), sym.int("v2", 11, 19)
    third_at = sym.int("third_put_start_us", 0, 5000) * 1000 if sym.bool("pressure_during_flush") else 20_000_000
    k2 = "k1" if same_key else "k2"
    res = {}

    def w1(self):
        yield from cs.put("k1", v1)
        res["w1_done"] = self.now.nanoseconds

    def fl(self):
        b = self.now.nanoseconds
        n = yield from cs.flush()
        res["flush"] = (b, self.now.nanoseconds, n)

    def w2(self):
        b = self.now.nanoseconds
        yield from cs.put(k2, v2)
        res["w2"] = (b, self.now.nanoseconds)

    def w3(self):
        yield from cs.put("k3", 33)          # capacity pressure after the flush

    def checker(self):
        yield from cs.flush()
        got1 = yield from cs.get("k1")
        got2 = yield from cs.get(k2)
        res["reads"] = (got1, got2)

    cl = [_Client("w1", w1), _Client("fl", fl), _Client("w2", w2), _Client("w3", w3), _Client("chk", checker)]
    sim = Simulation(entities=[store, cs] + cl)
    mon = Monitor(sim, cap=60)
    sim.schedule([mk_event(0, "go", cl[0]), mk_event(flush_at, "go", cl[1]), mk_event(put_at, "go", cl[2]),
                  mk_event(third_at, "go", cl[3]), mk_event(50_000_000, "go", cl[4])])
    try:
        sim.run()
    except SpinDetected:
        pass
    mon.judge(r, "flush_overlap")
    want1 = v1
    if same_key:
        # the later-completing put wins; both orders are possible only if they overlap, otherwise the second
        want1 = v2 if put_at >= res.get("w1_done", 0) else None
    want2 = v2 if not same_key else want1
    reads = res.get("reads")
    ok1 = (reads is not None) and (reads[0] == want1 if want1 is not None else reads[0] in (v1, v2))
    ok2 = (reads is not None) and (reads[1] == want2 if want2 is not None else reads[1] in (v1, v2))
    if not (ok1 and ok2):
        r.bad("read_after_completed_write_returns_it", {"reads": reads, "v1": v1, "v2": v2, "same_key": same_key, "capacity": cap, "flush": res.get("flush"), "second_put": res.get("w2")})
    s1, s2 = store.get_sync("k1"), store.get_sync(k2)
    if reads is not None and (s1 != reads[0] or s2 != reads[1]):
        r.bad("write_back_data_reaches_the_backing_store", {"store": [s1, s2], "reads": reads, "same_key": same_key, "capacity": cap, "flush": res.get("flush"),
                                                           "second_put": res.get("w2"), "dirty": cs.get_dirty_keys()})
    if not set(cs.get_dirty_keys()) <= set(cs.get_cached_keys()):
        r.bad("dirty_keys_are_cached", cs.get_dirty_keys(), cs.get_cached_keys())
    if res.get("flush") and res.get("w2") and res["flush"][0] < res["w2"][0] < res["flush"][1]:
        r.wit.add("put_started_during_flush")
    if res.get("flush") and res["flush"][2] >= 1:
        r.wit.add("flush_wrote_a_key")
    r.obs = {"reads": reads, "flush": res.get("flush"), "w2": res.get("w2")}
    return r


HARNESSES.append(
    H(name="c16_flush_overlap", fn=flush_overlap, shape="S", budget=lambda tier: 900.0,
      cubes=lambda tier: [{"capacity_minus_1": c, "second_put_same_key": k} for c in range(2) for k in range(2)],
      require=lambda tier: ["put_started_during_flush", "flush_wrote_a_key"], classify=overlap_classify,
      functions=["CachedStore.flush/put (write-back)/_cache_put/get", "KVStore.put/get"],
      bounds=lambda tier: {"flush start": "symbolic whole microsecond in [0.4, 1.2] ms", "second put start": "symbolic whole microsecond in [0, 4] ms, same or different key",
                           "capacity": [1, 2], "then": "put(k3) (capacity pressure) at 20 ms or at a symbolic whole microsecond in [0, 5] ms, flush + reads at 50 ms"}))


# ------------------------------------------------------------------ soft-TTL cache
MS = 1_000_000
_STTL_BASE_MS = [0, 1, 2, 3, 5, 6, 8]          # op start instants: whole ms after the first put completed (soft 2 ms, hard 5 ms) ...


def soft_ttl(sym, tier):
    """SoftTTLCache(soft 2 ms, hard 5 ms, LRU capacity 1-2) over a KVStore (1 ms reads/writes).  put(k)
    completes at 1 ms (entry cached at 1 ms); then three operations start at table instants +-1 ns
    (on and around the soft and hard boundaries): get(k), put(k), get(other key), invalidate(k), or a
    write to the backing store behind the cache's back.  A get never returns a value that the store
    had stopped holding hard_ttl or more before the get started; after a completed put through the
    cache a get returns it or something newer; capacity and LRU bookkeeping hold after every event."""
    from happysimulator.components.datastore.soft_ttl_cache import SoftTTLCache
    r = Result()
    cap = 1 + sym.choice("capacity_minus_1", 2)
    store = KVStore("kv", read_latency=0.001, write_latency=0.001)
    c = SoftTTLCache("sttl", backing_store=store, soft_ttl=0.002, hard_ttl=0.005, cache_capacity=cap, cache_read_latency=0.0001)
    HARD, T0 = 5 * MS, 1 * MS
    n_ops = 3
    plan = []
    k_idx = 0
    for i in range(n_ops):
        k_idx = k_idx + sym.choice(f"advance{i}", 3)
        if k_idx >= len(_STTL_BASE_MS):
            k_idx = len(_STTL_BASE_MS) - 1
        kind = sym.choice(f"op{i}", 5)        # 0 get(k) 1 put(k) 2 get(j) 3 invalidate(k) 4 backing store written directly
        off = (sym.choice(f"offset{i}", 3) - 1) if kind == 0 else 0      # +-1 ns only matters for the reads
        plan.append((T0 + _STTL_BASE_MS[k_idx] * MS + off, kind))
    writes = []                 # (instant the store starts holding the value, value) for key k, in execution order
    gets = []                   # (start, end, value)
    puts_done = []              # (completion instant, value) of puts through the cache
    problems = []

    def first(self):
        yield from c.put("k", 1)
        writes.append((self.now.nanoseconds, 1))

    def mk(i, t, kind):
        def body(self):
            v = 10 + i
            if kind == 0:
                b = self.now.nanoseconds
                got = yield from c.get("k")
                gets.append((b, self.now.nanoseconds, got))
            elif kind == 1:
                yield from c.put("k", v)
                writes.append((self.now.nanoseconds, v))
                puts_done.append((self.now.nanoseconds, v))
            elif kind == 2:
                yield from c.get("j")
            elif kind == 3:
                c.invalidate("k")
            else:
                store.put_sync("k", v)
                writes.append((self.now.nanoseconds, v))
        return body

    cl = [_Client("first", first)] + [_Client(f"op{i}", mk(i, t, kind)) for i, (t, kind) in enumerate(plan)]
    store.put_sync("j", 99)
    sim = Simulation(entities=[store, c] + cl)
    mon = Monitor(sim, cap=60)

    def invariants(ev):
        if c.cache_size > cap:
            problems.append(("cache_within_capacity", c.cache_size, cap))
        if sorted(c._access_order) != sorted(c.get_cached_keys()):
            problems.append(("lru_tracks_exactly_the_cached_keys", list(c._access_order), c.get_cached_keys()))

    sim.control.on_event(invariants)
    sim.schedule([mk_event(0, "go", cl[0])] + [mk_event(t, "go", cl[i + 1]) for i, (t, kind) in enumerate(plan)] + [mk_event(30 * MS, "keepalive", cl[0].__class__("idle", lambda s: None))])
    try:
        sim.run()
    except SpinDetected:
        pass
    mon.judge(r, "soft_ttl")
    for p in problems[:1]:
        r.bad(p[0], p[1:])
    for (b, e, got) in gets:
        # value v is acceptable if the store held it at some instant in (b - HARD, e]
        ok = False
        for j, (w, v) in enumerate(writes):
            until = writes[j + 1][0] if j + 1 < len(writes) else None       # stopped holding it at `until`
            if v == got and w <= e and (until is None or until > b - HARD):
                ok = True
        if not ok:
            r.bad("never_serves_an_entry_older_than_hard_ttl", {"get": [b, e, got], "store_history": writes, "plan": plan})
        done_before = [pv for (pt, pv) in puts_done if pt < b]        # same instant = concurrent
        if done_before:
            last_t = max(pt for (pt, pv) in puts_done if pt < b)
            newer = [v for (w, v) in writes if w >= last_t]
            if got not in newer:
                r.bad("read_after_completed_write_returns_it", {"get": [b, e, got], "store_history": writes, "puts_completed": puts_done})
        if b - T0 >= HARD:
            r.wit.add("get_at_or_after_hard_ttl")
        elif b - T0 >= 2 * MS:
            r.wit.add("get_in_stale_zone")
    if any(kind == 4 for (t, kind) in plan):
        r.wit.add("store_written_behind_the_cache")
    r.obs = {"gets": gets, "plan": plan}
    return r


HARNESSES.append(
    H(name="c16_soft_ttl", fn=soft_ttl, shape="S", budget=lambda tier: 900.0 if tier == "quick" else 3000.0,
      cubes=lambda tier: [{"capacity_minus_1": a, "op0": b, "op1": d} for a in range(2) for b in range(5) for d in range(5)],
      require=lambda tier: ["get_at_or_after_hard_ttl", "get_in_stale_zone", "store_written_behind_the_cache"], classify=overlap_classify,
      functions=["SoftTTLCache.get/put/invalidate/handle_event/_maybe_start_refresh/_store/_evict_lru", "CacheEntry.is_fresh/is_valid", "KVStore.get/put"],
      bounds=lambda tier: {"ttl": "soft 2 ms, hard 5 ms", "operations": "3 after the initial put, start instants from {0,1,2,3,5,6,8} ms after it (gets: +-1 ns), non-decreasing",
                           "kinds": ["get(k)", "put(k)", "get(other)", "invalidate(k)", "backing store written directly"], "capacity": [1, 2]},
      outside=["other TTL values", "more than 3 operations", "invalidate_all"]))


# ------------------------------------------------------------------ multi-tier cache
def multi_tier(sym, tier):
    """MultiTierCache [L1 capacity 1, L2 capacity 2] (write-through CachedStores, LRU) over one KVStore,
    every promotion policy: get/put/delete/invalidate script, one operation at a time, against a dict.
    Before the script some keys may already sit in L2 only (as after an L1 eviction)."""
    from happysimulator.components.datastore.multi_tier_cache import MultiTierCache, PromotionPolicy
    r = Result()
    pol = [PromotionPolicy.ALWAYS, PromotionPolicy.NEVER, PromotionPolicy.ON_SECOND_ACCESS][sym.choice("promotion", 3)]
    store = KVStore("kv", read_latency=0.001, write_latency=0.002)
    l1 = CachedStore("l1", backing_store=store, cache_capacity=1, eviction_policy=LRUEviction(), write_through=True, cache_read_latency=0.0001)
    l2 = CachedStore("l2", backing_store=store, cache_capacity=2, eviction_policy=LRUEviction(), write_through=True, cache_read_latency=0.0005)
    mt = MultiTierCache("mt", tiers=[l1, l2], backing_store=store, promotion_policy=pol)
    model = {}
    nk = 3
    # pre-state: keys written through L2 directly (the store and L2 agree, L1 does not know them)
    for i in range(2):
        if sym.bool(f"preloaded_in_l2_{i}"):
            _drive(l2.put(KEYS[i], 90 + i))
            model[KEYS[i]] = 90 + i
            r.wit.add("key_only_in_l2")
    n = 3 if tier == "quick" else 4
    script = []
    for s_ in range(n):
        op = sym.choice(f"op{s_}", 4)
        k = KEYS[sym.choice(f"key{s_}", nk)]
        if op == 0:
            got = _drive(mt.get(k))
            script.append(("get", k, got))
            if got != model.get(k):
                r.bad("read_after_completed_write_returns_it", {"script": script, "got": got, "want": model.get(k), "promotion": pol.name})
                break
        elif op == 1:
            v = sym.int(f"val{s_}", 1, 9)
            _drive(mt.put(k, v))
            model[k] = v
            script.append(("put", k, v))
        elif op == 2:
            _drive(mt.delete(k))
            model.pop(k, None)
            script.append(("delete", k))
        else:
            mt.invalidate(k)
            script.append(("invalidate", k))
        for t_, cap in ((l1, 1), (l2, 2)):
            if t_.cache_size > cap:
                r.bad("cache_never_exceeds_capacity", t_.name, script)
            tracked = _drain(copy.deepcopy(t_._eviction_policy))
            if sorted(tracked) != sorted(t_.get_cached_keys()):
                r.bad("policy_keys_equal_cached_keys", {"tier": t_.name, "script": script, "policy": sorted(tracked), "cache": sorted(t_.get_cached_keys())})
            for ck in t_.get_cached_keys():
                if t_._cache[ck] != store.get_sync(ck):
                    r.bad("write_through_tier_agrees_with_the_store", {"tier": t_.name, "key": ck, "cached": t_._cache[ck], "store": store.get_sync(ck), "script": script})
    if mt.stats.promotions:
        r.wit.add("promotion")
    for k in KEYS[:nk]:
        if store.get_sync(k) != model.get(k):
            r.bad("write_through_store_holds_last_write", {"key": k, "store": store.get_sync(k), "want": model.get(k), "script": script})
    r.obs = {"script": script, "promotion": pol.name}
    return r


HARNESSES.append(
    H(name="c16_multi_tier", fn=multi_tier, shape="S", budget=lambda tier: 900.0 if tier == "quick" else 3000.0,
      cubes=lambda tier: [{"promotion": a, "op0": b, "key0": 0} for a in range(3) for b in range(4)],
      require=lambda tier: ["promotion", "key_only_in_l2"], classify=overlap_classify,
      functions=["MultiTierCache.get/put/delete/invalidate/_maybe_promote/_cache_value", "CachedStore.get/put/invalidate/_cache_put (as tiers)", "KVStore.*"],
      bounds=lambda tier: {"tiers": "L1 capacity 1, L2 capacity 2, LRU, write-through", "ops": 3 if tier == "quick" else 4, "keys": 3, "pre-state": "0-2 keys present in L2 and the store only",
                           "promotion": ["always", "never", "on_second_access"]},
      outside=["overlapping operations on a multi-tier cache", "write-back tiers", "more than two tiers"]))
