"""C10 — rate limiters never over-admit and report time-until-available truthfully.

The policies compute in IEEE doubles (elapsed seconds, float floor-division, refill products).
CrossHair's float model is real arithmetic, which hides exactly the rounding cases that matter, so
the call instants are taken from concrete per-policy tables of boundary instants (multiples of the
window / refill step, +-1 ns) chosen by symbolic selectors: every float operation is then executed
natively and exactly, and the solver explores every sequence over the table."""
from __future__ import annotations

import copy

from happysimulator.components.rate_limiter.policy import (
    AdaptivePolicy, FixedWindowPolicy, LeakyBucketPolicy, RateAdjustmentReason, SlidingWindowPolicy, TokenBucketPolicy)
from happysimulator.components.rate_limiter.rate_limited_entity import RateLimitedEntity
from happysimulator.core.entity import Entity
from happysimulator.core.simulation import Simulation
from happysimulator.core.temporal import Duration, Instant

from harness.common import Monitor, SpinDetected, mk_event
from vf.harness import H
from vf.sym import Result

S = 1_000_000_000
POL = ["token", "leaky", "sliding", "fixed", "adaptive", "fixed_odd"]
ODD_WINDOW_S = 2.0 / 3.0            # not representable in whole nanoseconds: 666666666.67 ns
ODD_WINDOW_NS = Duration.from_seconds(ODD_WINDOW_S).nanoseconds
STEP_NS = {"token": 250_000_000, "leaky": 250_000_000, "sliding": 150_000_000, "fixed": 100_000_000, "adaptive": 250_000_000, "fixed_odd": ODD_WINDOW_NS}
FIXED_W = {"fixed": 100_000_000, "fixed_odd": ODD_WINDOW_NS}


def _make(pol):
    if pol == "token":
        return TokenBucketPolicy(capacity=2.0, refill_rate=2.0)
    if pol == "leaky":
        return LeakyBucketPolicy(leak_rate=2.0)
    if pol == "sliding":
        return SlidingWindowPolicy(window_size_seconds=0.3, max_requests=2)
    if pol == "fixed":
        return FixedWindowPolicy(requests_per_window=2, window_size=0.1)
    if pol == "fixed_odd":
        return FixedWindowPolicy(requests_per_window=2, window_size=ODD_WINDOW_S)
    return AdaptivePolicy(initial_rate=4.0, min_rate=1.0, max_rate=8.0, increase_step=2.0, decrease_factor=0.5, window_size=1.0)


def kernels(sym, tier):
    r = Result()
    pol = POL[sym.choice("policy", len(POL))]
    p = _make(pol)
    K = 4 if tier == "quick" else 5
    step = STEP_NS[pol]
    k = 0
    admitted = []
    calls = []
    fb_time = None
    for i in range(K):
        k = k + sym.choice(f"advance{i}", 4)                    # 0..3 table steps forward
        off = sym.choice(f"offset{i}", 3) - 1                   # -1, 0, +1 ns
        t = k * step + off
        if t < 0 or (calls and t < calls[-1]):
            t = calls[-1] if calls else 0
        calls.append(t)
        now = Instant(t)
        if pol == "adaptive" and i == 1:
            fb = sym.choice(f"feedback{i}", 3)
            if fb == 1:
                p.record_success(now)
            elif fb == 2:
                p.record_failure(now)
            if not (p.min_rate <= p.current_rate <= p.max_rate):
                r.bad("adaptive_rate_within_min_max", p.current_rate)
            fb_time = t
        w = copy.deepcopy(p).time_until_available(now)
        if w.nanoseconds < 0:
            r.bad("time_until_available_non_negative", pol, t, w.nanoseconds)
        if w == Duration.ZERO:
            if not copy.deepcopy(p).try_acquire(now):
                r.bad("zero_wait_means_immediate_acquire_succeeds", pol, {"calls_ns": calls, "admitted_ns": admitted})
        else:
            r.wit.add("denied")
            if copy.deepcopy(p).try_acquire(now):
                r.bad("positive_wait_means_acquire_fails_now", pol, t)
            if w.nanoseconds > 1 and copy.deepcopy(p).try_acquire(Instant(t + w.nanoseconds - 1)):
                r.bad("no_acquire_succeeds_before_the_returned_wait", pol, {"now_ns": t, "wait_ns": w.nanoseconds, "calls_ns": calls})
            # progress: waiting the returned duration repeatedly reaches an admitting instant
            q = copy.deepcopy(p)
            tt = t
            ok = False
            for _step in range(4):
                ww = q.time_until_available(Instant(tt))
                if ww == Duration.ZERO:
                    ok = q.try_acquire(Instant(tt))
                    break
                tt = tt + ww.nanoseconds
            if not ok:
                r.bad("waiting_the_returned_duration_reaches_an_admitting_instant", pol, {"now_ns": t, "calls_ns": calls})
        if p.try_acquire(now):
            admitted.append(t)
    # ---- admission bounds over every interval of admitted instants
    n = len(admitted)
    for i in range(n):
        for j in range(i, n):
            cnt = j - i + 1
            d = admitted[j] - admitted[i]
            if pol == "token" and cnt * S > 2 * S + 2 * d:
                r.bad("token_bucket_bound_capacity_plus_rate_times_length", admitted)
            if pol == "leaky" and j == i + 1 and d < S // 2:
                r.bad("leaky_bucket_spacing_at_least_one_over_rate", admitted)
            if pol == "sliding" and d <= 300_000_000 and cnt > 2:
                r.bad("sliding_window_at_most_n_in_any_window", admitted)
            if pol in FIXED_W:
                W = FIXED_W[pol]
                if d < W and cnt > 4:
                    r.bad("fixed_window_at_most_2n_in_any_window_length", admitted)
                if admitted[i] // W == admitted[j] // W and cnt > 2:
                    r.bad("fixed_window_at_most_n_per_aligned_window", admitted)
    if pol == "adaptive" and fb_time is not None:
        # after the feedback the rate is constant: admissions at instants strictly after it obey the bucket bound of that rate
        rate = p.current_rate
        later = [a for a in admitted if a > fb_time]
        for i in range(len(later)):
            for j in range(i, len(later)):
                if (j - i + 1) > rate * 1.0 + rate * (later[j] - later[i]) / 1e9 + 1e-6:
                    r.bad("adaptive_bucket_bound_of_current_rate", {"rate": rate, "admitted_ns": admitted, "feedback_at_ns": fb_time})
        if len(later) >= 2:
            r.wit.add("adaptive_two_after_feedback")
    if n >= 2:
        r.wit.add("two_admitted")
    r.obs = {"policy": pol, "calls_ns": calls, "admitted_ns": admitted}
    return r


def _feedback(p, kind, now):
    if kind == 1:
        p.record_success(now)
    elif kind == 2:
        p.record_failure(now)
    elif kind == 3:
        p.record_failure(now, RateAdjustmentReason.TIMEOUT)


_ADV_NS = [0, 1, 250_000_000, S, 3 * S]


def adaptive_history(sym, tier):
    """AdaptivePolicy driven only through its public calls: drain n0 tokens, feedback, optional
    time_until_available query, idle gap, feedback, then a burst of acquisitions at one instant.
    After a refill that follows the last rate change the bucket holds at most rate*window tokens,
    so the burst admits at most floor(rate*window); the whole history admits at most the initial
    bucket plus the integral of the rate."""
    r = Result()
    p = AdaptivePolicy(initial_rate=4.0, min_rate=1.0, max_rate=8.0, increase_step=2.0, decrease_factor=0.5, window_size=1.0)
    t = 0
    gaps, rates = [], []
    total = 0
    n0 = sym.choice("drain", 5)
    for _ in range(n0):
        if p.try_acquire(Instant(t)):
            total += 1
    last_change = None
    for phase in range(2):
        fb = sym.choice(f"feedback{phase}", 4)
        before = p.current_rate
        _feedback(p, fb, Instant(t))
        if p.current_rate != before:
            last_change = t
        if not (p.min_rate <= p.current_rate <= p.max_rate):
            r.bad("adaptive_rate_within_min_max", p.current_rate)
        if sym.choice(f"query{phase}", 2):
            w = p.time_until_available(Instant(t))
            if w.nanoseconds < 0:
                r.bad("time_until_available_non_negative", t, w.nanoseconds)
            if (w == Duration.ZERO) != copy.deepcopy(p).try_acquire(Instant(t)):
                r.bad("zero_wait_iff_acquire_succeeds_now", {"t_ns": t, "wait_ns": w.nanoseconds, "tokens": p.tokens})
        gap = _ADV_NS[sym.choice(f"gap{phase}", len(_ADV_NS))]
        gaps.append(gap)
        rates.append(p.current_rate)
        t += gap
        if phase == 0:
            mid = sym.choice("mid_acquires", 3)
            for _ in range(mid):
                if p.try_acquire(Instant(t)):
                    total += 1
    rate = p.current_rate
    burst = 0
    for _ in range(9):
        if p.try_acquire(Instant(t)):
            burst += 1
    total += burst
    if last_change is not None and t > last_change:
        r.wit.add("burst_after_rate_change")
        if burst > rate * 1.0 + 1e-9:
            r.bad("burst_at_one_instant_at_most_rate_times_window", {"rate": rate, "burst": burst, "t_ns": t, "last_rate_change_ns": last_change})
    if burst > 8:
        r.bad("burst_at_most_max_rate_times_window", burst)
    # refill is lazy and credits an idle gap at the rate in force when it is next evaluated, so each gap is
    # credited at the highest rate from its start to the end of the history (the property's bound is the bucket bound of the current rate)
    credit = 4.0 + gaps[0] * max(rates) / 1e9 + gaps[1] * rates[1] / 1e9
    if total > credit + 1e-6:
        r.bad("admissions_at_most_initial_bucket_plus_rate_times_elapsed", {"admitted": total, "credit": credit})
    if rate < 4.0:
        r.wit.add("rate_lowered")
    r.obs = {"burst": burst, "rate": rate, "total": total}
    return r



# ------------------------------------------------------------------ DistributedRateLimiter over a shared store
def distributed(sym, tier):
    """Two DistributedRateLimiter instances (global limit 2 per 1 s window) sharing one KVStore whose read and
    write latency is 0 or 1 ms, 4 requests at symbolic whole milliseconds to either instance: every request
    is forwarded or dropped exactly once and the forwarded ones really reach the downstream; no event is
    dated before the clock; when requests do not overlap in time at most global_limit are forwarded per window."""
    from happysimulator.components.datastore.kv_store import KVStore
    from happysimulator.components.rate_limiter.distributed import DistributedRateLimiter
    r = Result()
    lat = [0.0, 0.001][sym.choice("store_latency", 2)]
    got = []

    class Down(Entity):
        def handle_event(self, event):
            got.append((event.event_type, self.now.nanoseconds))

    down = Down("down")
    store = KVStore("redis", read_latency=lat, write_latency=lat)
    lims = [DistributedRateLimiter(name=f"lim{i}", downstream=down, backing_store=store, global_limit=2, window_size=1.0) for i in range(2)]
    m = 4
    t = 0
    plan = []
    for i in range(m):
        t = t + [0, 1, 3, 400, 700][sym.choice(f"gap{i}", 5)]          # ms after the previous request
        plan.append((t, sym.choice(f"instance{i}", 2)))
    sim = Simulation(entities=[store, down] + lims)
    mon = Monitor(sim, cap=60)
    sim.schedule([mk_event(tm * 1_000_000, f"req{i}", lims[w]) for i, (tm, w) in enumerate(plan)] + [mk_event((t + 50) * 1_000_000, "keepalive", down)])
    try:
        sim.run()
    except SpinDetected:
        pass
    mon.judge(r, "distributed_rate_limiter")
    fwd = sum(l.stats.requests_forwarded for l in lims)
    drp = sum(l.stats.requests_dropped for l in lims)
    arrived = [x for x in got if x[0].startswith("forward::")]
    if fwd + drp != m:
        r.bad("every_request_forwarded_or_dropped_exactly_once", {"forwarded": fwd, "dropped": drp, "offered": m, "plan": plan})
    if len(arrived) != fwd or len(set(x[0] for x in arrived)) != len(arrived):
        r.bad("forwarded_requests_reach_the_downstream_once", {"counted_forwarded": fwd, "arrived": arrived, "plan": plan, "store_latency_s": lat})
    separated = all(b[0] - a[0] >= 3 for a, b in zip(plan, plan[1:]))
    if separated:
        for w0 in range(0, t + 1000, 1000):
            inwin = [tm for (tm, w) in plan if w0 <= tm < w0 + 1000]
            if inwin and sum(1 for x in arrived if w0 * 1_000_000 <= x[1] - int(2 * lat * 1e9) < (w0 + 1000) * 1_000_000) > 2:
                r.bad("at_most_global_limit_forwarded_per_window_when_requests_do_not_overlap", {"plan": plan, "arrived": arrived})
    if drp:
        r.wit.add("dropped")
    if lat > 0 and fwd:
        r.wit.add("forwarded_after_a_store_round_trip")
    r.obs = {"plan": plan, "arrived": arrived}
    return r


def kernels_classify(clause, draws, obs):
    return None


# ------------------------------------------------------------------ RateLimitedEntity in the engine
class Sink(Entity):
    def __init__(self, name, log):
        super().__init__(name)
        self.log = log

    def handle_event(self, event):
        self.log.append((event.context["metadata"]["label"], self.now.nanoseconds))


def entity(sym, tier):
    """m requests at table instants through a real RateLimitedEntity with a real policy: each request is
    forwarded xor dropped exactly once, forwards keep arrival order, the drain never stalls or spins."""
    r = Result()
    pol = ["token", "leaky", "fixed"][sym.choice("policy", 3)]
    p = _make(pol)
    m = 3 if tier == "quick" else 4
    qcap = 1 + sym.choice("queue_capacity_minus_1", 2)
    step = STEP_NS[pol]
    log = []
    sink = Sink("sink", log)
    rl = RateLimitedEntity("rl", downstream=sink, policy=p, queue_capacity=qcap)
    sim = Simulation(entities=[rl, sink])
    mon = Monitor(sim, cap=50)
    k = 0
    ts = []
    for i in range(m):
        k = k + sym.choice(f"advance{i}", 3)
        ts.append(k * step + (sym.choice(f"offset{i}", 3) - 1 if k > 0 else 0))
    evs = [mk_event(t, f"r{i}", rl) for i, t in enumerate(ts)]
    evs.append(mk_event(20 * S, "keepalive", sink))       # the poll events are daemons
    sim.schedule(evs)
    try:
        sim.run()
    except SpinDetected:
        pass
    mon.judge(r, pol)
    fwd = [l for (l, t) in log if l != "keepalive"]
    st = rl.stats
    if len(set(fwd)) != len(fwd):
        r.bad("request_forwarded_at_most_once", fwd)
    if not mon.spun:
        if st.forwarded + st.dropped != m or len(fwd) != st.forwarded or rl.queue_depth != 0:
            r.bad("every_request_forwarded_or_dropped_exactly_once", {"forwarded": fwd, "dropped": st.dropped, "queue": rl.queue_depth, "offered": m})
        order = sorted(range(m), key=lambda i: (ts[i], i))
        want = [f"r{i}" for i in order if f"r{i}" in fwd]
        if fwd != want:
            r.bad("requests_forwarded_in_arrival_order", {"arrivals_ns": ts, "forwarded": log})
    if st.queued:
        r.wit.add("queued")
    if st.dropped:
        r.wit.add("dropped")
    r.obs = {"policy": pol, "arrivals_ns": ts, "log": log}
    return r


def entity_classify(clause, draws, obs):
    """Known finding: a new arrival is forwarded ahead of requests that are still queued.  Recognised
    only when the forwarded sequence is a permutation of the expected one in which every request that
    jumped ahead arrived later than a request it overtook (nothing lost, nothing duplicated)."""
    import json
    if not clause.startswith("requests_forwarded_in_arrival_order"):
        return None
    try:
        detail = json.loads(clause.split(": ", 1)[1])
    except Exception:
        return None
    ts = detail["arrivals_ns"]
    fwd = [l for (l, t) in detail["forwarded"] if l != "keepalive"]
    if len(set(fwd)) != len(fwd):
        return None
    idx = [int(l[1:]) for l in fwd]
    when = {int(l[1:]): t for (l, t) in detail["forwarded"] if l != "keepalive"}
    inversions = [(a, b) for i, a in enumerate(idx) for b in idx[i + 1:] if (ts[a], a) > (ts[b], b)]
    # every overtaker was forwarded at its own arrival instant (it never sat in the queue)
    if inversions and all(when[a] == ts[a] for a, _b in inversions):
        return "new-arrival-overtakes-queued-request"
    return None


MANIFEST = {
    "note": "Call instants come from concrete tables (multiples of the refill/window step, +-1 ns), selected symbolically, so that IEEE-754 "
            "behaviour of the real code is exact; CrossHair explores every selector sequence. Parameters: one configuration per policy. "
            "Continuous ranges of instants / parameters are outside the claim.",
    "technique": "symbolic execution of the real Python code (CrossHair + z3) over symbolic selectors into concrete boundary-instant tables; floats evaluated natively",
}

HARNESSES = [
    H(name="c10_kernels", fn=kernels, shape="K", budget=lambda tier: 900.0 if tier == "quick" else 3000.0,
      cubes=lambda tier: [dict({"policy": a, "advance0": 0, "advance1": b, "offset0": 1}, **({} if tier == "quick" else {"offset1": o}))
                          for a in range(len(POL)) for b in range(4) for o in ((0,) if tier == "quick" else (0, 1, 2))],
      require=lambda tier: ["denied", "two_admitted"], classify=kernels_classify,
      functions=["TokenBucketPolicy.try_acquire/time_until_available/_refill", "LeakyBucketPolicy.*", "SlidingWindowPolicy.*/_prune",
                 "FixedWindowPolicy.*/_get_window_start/_maybe_reset", "AdaptivePolicy.*/record_success/record_failure", "Instant/Duration arithmetic"],
      bounds=lambda tier: {"calls": 4 if tier == "quick" else 5, "instants": "k * step + {-1,0,+1} ns, k advancing by 0..3 per call",
                           "step_ns": STEP_NS, "configurations": "token(cap 2, 2/s) leaky(2/s) sliding(0.3 s, 2) fixed(0.1 s, 2) fixed_odd(2/3 s, 2) adaptive(4/s in [1,8], feedback before call 1)"},
      outside=["instants off the table", "other parameter values", "k > 5 calls"]),
    H(name="c10_adaptive_history", fn=adaptive_history, shape="S", budget=lambda tier: 900.0 if tier == "quick" else 3000.0,
      cubes=lambda tier: [{"drain": a, "feedback0": b} for a in range(5) for b in range(4)],
      require=lambda tier: ["burst_after_rate_change", "rate_lowered"] if True else [],
      functions=["AdaptivePolicy.try_acquire/time_until_available/_refill/record_success/record_failure"],
      bounds=lambda tier: {"history": "drain 0..4 at t=0; 2 x (feedback none/success/failure/timeout, optional time_until_available, idle gap from table); 0..2 acquires between; burst of 9 at one instant",
                           "gaps_ns": _ADV_NS, "configuration": "4/s in [1,8], step 2, factor 0.5, window 1 s"},
      outside=["other parameter values", "gaps off the table", "more than two rate changes"]),
    H(name="c10_distributed", fn=distributed, shape="S", budget=lambda tier: 900.0 if tier == "quick" else 3000.0,
      cubes=lambda tier: [{"store_latency": a, "gap0": 0, "gap1": b} for a in range(2) for b in range(5)],
      require=lambda tier: ["dropped", "forwarded_after_a_store_round_trip"], classify=kernels_classify,
      functions=["DistributedRateLimiter.handle_event/check_and_increment", "KVStore.get/put"],
      bounds=lambda tier: {"instances": 2, "requests": 4, "gaps between requests (ms)": [0, 1, 3, 400, 700], "store latency": [0.0, 0.001], "global limit": "2 per 1 s window"},
      outside=["the global bound under overlapping store round trips (read-then-write is not atomic by design)"]),
    H(name="c10_entity", fn=entity, shape="S", budget=lambda tier: 900.0 if tier == "quick" else 3000.0,
      cubes=lambda tier: [{"policy": a, "queue_capacity_minus_1": b} for a in range(3) for b in range(2)],
      require=lambda tier: ["queued", "dropped"], classify=entity_classify,
      functions=["RateLimitedEntity._handle_request/_handle_poll/_forward/_ensure_poll_scheduled"],
      bounds=lambda tier: {"requests": 3 if tier == "quick" else 4, "arrival instants": "table as above", "queue capacity": [1, 2], "policies": ["token", "leaky", "fixed"]},
      outside=["Inductor", "NullRateLimiter (pass-through)"]),
]
