"""C14 — storage engines behave like a map under any flushes, compactions and overlap."""
from __future__ import annotations

from happysimulator.components.storage.btree import BTree
from happysimulator.components.storage.lsm_tree import FIFOCompaction, LeveledCompaction, LSMTree, SizeTieredCompaction
from happysimulator.core.entity import Entity
from happysimulator.core.simulation import Simulation

from harness.common import Monitor, SpinDetected, mk_event
from vf.harness import H
from vf.sym import Result

KEYS = ["k0", "k1", "k2"]
STRATS = ["size_tiered", "leveled", "fifo"]


def _strategy(i):
    if i == 0:
        return SizeTieredCompaction(min_sstables=2)
    if i == 1:
        return LeveledCompaction(level_0_max=2, size_ratio=2, base_size_keys=1)
    return FIFOCompaction(max_total_sstables=2)


def _drive(gen):
    """Run a storage generator to completion (delays ignored: one operation at a time)."""
    try:
        while True:
            next(gen)
    except StopIteration as e:
        return e.value


def lsm_sequential(sym, tier):
    """put/delete/get script with symbolic values against a dict; memtable 1-2 entries and 2-3 levels so
    that every few operations flush and compact through all levels (tombstones reach the last level)."""
    r = Result()
    strat = sym.choice("strategy", 3)
    msize = 1 + sym.choice("memtable_minus_1", 2)
    levels = 2 + sym.choice("levels_minus_2", 2)
    gen_api = sym.bool("generator_api")
    nk = 2
    n = 4 if tier == "quick" else 5
    t = LSMTree("lsm", memtable_size=msize, compaction_strategy=_strategy(strat), max_levels=levels)
    model = {}
    script = []
    for s in range(n):
        op = sym.choice(f"op{s}", 3)
        k = KEYS[sym.choice(f"key{s}", nk)]
        if op == 0:
            v = sym.int(f"val{s}", 1, 9)
            if gen_api:
                _drive(t.put(k, v))
            else:
                t.put_sync(k, v)
            model[k] = v
            script.append(("put", k))
        elif op == 1:
            if gen_api:
                _drive(t.delete(k))
            else:
                _drive(t.delete(k))
            model.pop(k, None)
            script.append(("delete", k))
        else:
            got = _drive(t.get(k)) if gen_api else t.get_sync(k)
            script.append(("get", k))
            if got != model.get(k):
                r.bad("lsm_read_returns_latest_write", {"script": script, "got": got, "want": model.get(k)})
                break
    for k in KEYS[:nk]:
        got = t.get_sync(k)
        if got != model.get(k):
            r.bad("lsm_final_state_equals_map", {"script": script, "key": k, "got": got, "want": model.get(k),
                                                "levels": [[sorted(x for x, _ in s_.scan()) for s_ in lv] for lv in t._levels]})
            break
    sc = _drive(t.scan("k0", "k9"))
    if [list(x) for x in sc] != [[k, model[k]] for k in sorted(model)]:
        r.bad("lsm_scan_returns_live_keys_sorted", {"script": script, "scan": [list(x) for x in sc], "want": sorted(model)})
    st = t.stats
    if st.compactions:
        r.wit.add("compaction")
    if any(lv for lv in t._levels[1:]):
        r.wit.add("data_below_L0")
    if ("delete", KEYS[0]) in script and st.memtable_flushes:
        r.wit.add("tombstone_flushed")
    r.obs = {"script": script, "flushes": st.memtable_flushes, "compactions": st.compactions}
    return r


# ------------------------------------------------------------------ overlap in simulated time
class _Client(Entity):
    def __init__(self, name, body):
        super().__init__(name)
        self.body = body

    def handle_event(self, event):
        return self.body(self)


def lsm_overlap(sym, tier):
    """Writer: put(k0,v1); put(kx,v2) with memtable_size 2 (the second put flushes).  Reader: get(k0)
    starting at a symbolic instant.  A read returns the latest write that completed before it began, or
    a write concurrent with it."""
    r = Result()
    second_same_key = sym.bool("second_put_same_key")
    t = LSMTree("lsm", memtable_size=1 if second_same_key else 2, compaction_strategy=SizeTieredCompaction(min_sstables=4), max_levels=3)
    v1, v2 = sym.int("v1", 1, 9), sym.int("v2", 11, 19)
    start = sym.int("reader_start_ns", 0, 6_000_000)
    ops = []          # (what, key, value, begin, end)
    res = {}

    def writer(self):
        b = self.now.nanoseconds
        yield from t.put("k0", v1)
        ops.append(("put", "k0", v1, b, self.now.nanoseconds))
        b = self.now.nanoseconds
        k = "k0" if second_same_key else "k1"
        yield from t.put(k, v2)
        ops.append(("put", k, v2, b, self.now.nanoseconds))

    def reader(self):
        b = self.now.nanoseconds
        got = yield from t.get("k0")
        res["get"] = (got, b, self.now.nanoseconds)

    w, rd = _Client("w", writer), _Client("r", reader)
    sim = Simulation(entities=[t, w, rd])
    mon = Monitor(sim, cap=40)
    sim.schedule([mk_event(0, "go", w), mk_event(start, "go", rd)])
    try:
        sim.run()
    except SpinDetected:
        pass
    mon.judge(r, "lsm_overlap")
    got, rb, re_ = res.get("get", (None, 0, 0))
    writes = [(v, b, e) for (_w, k, v, b, e) in ops if k == "k0"]
    # a write finishing at the very instant the read begins counts as concurrent (order of simultaneous events is free)
    done_before = [(v, b, e) for (v, b, e) in writes if e < rb]
    latest = None
    for w_ in done_before:
        if latest is None or w_[2] >= latest[2]:
            latest = w_
    ok = [latest[0] if latest else None] + [v for (v, b, e) in writes if not (e < rb) and b <= re_]
    if got not in ok:
        r.bad("read_returns_latest_completed_or_concurrent_write", {"got": got, "acceptable": ok, "read": [rb, re_], "writes_k0": writes,
                                                                   "ops": [[o[0], o[1], o[3], o[4]] for o in ops]})
    if any(b < rb < e for (_w, k, v, b, e) in ops[1:]):
        r.wit.add("read_began_during_flushing_put")
    r.obs = {"got": got, "read": [rb, re_], "ops": [[o[0], o[1], o[3], o[4]] for o in ops]}
    return r


def overlap_classify(clause, draws, obs):
    return None


# ------------------------------------------------------------------ B-tree
def btree_sequential(sym, tier):
    r = Result()
    n = 5
    bt = BTree("bt", order=3)
    keys = ["a", "b", "c", "d"]
    model = {}
    script = []
    for s in range(n):
        op = sym.choice(f"op{s}", 3) if s > 1 else 0
        k = keys[sym.choice(f"key{s}", 4)]
        if op == 0:
            v = sym.int(f"val{s}", 1, 9)
            _drive(bt.put(k, v))
            model[k] = v
            script.append(("put", k))
        elif op == 1:
            d = _drive(bt.delete(k))
            if bool(d) != (k in model):
                r.bad("btree_delete_reports_presence", script, k)
            model.pop(k, None)
            script.append(("delete", k))
        else:
            got = _drive(bt.get(k))
            script.append(("get", k))
            if got != model.get(k):
                r.bad("btree_read_returns_latest_write", {"script": script, "got": got, "want": model.get(k)})
                break
    for k in keys:
        if bt.get_sync(k) != model.get(k):
            r.bad("btree_final_state_equals_map", {"script": script, "key": k, "got": bt.get_sync(k), "want": model.get(k)})
            break
    sc = _drive(bt.scan("a", "z"))
    if [list(x) for x in sc] != [[k, model[k]] for k in sorted(model)]:
        r.bad("btree_scan_returns_live_keys_sorted", {"script": script, "scan": [list(x) for x in sc], "want": sorted(model)})
    if bt.size != len(model):
        r.bad("btree_size_matches", bt.size, len(model))
    if bt.depth > 1:
        r.wit.add("node_split")
    r.obs = {"script": script, "depth": bt.depth}
    return r


def classify(clause, draws, obs):
    return None


MANIFEST = {
    "note": "Values are symbolic, keys/op-codes are solver-chosen selectors; Bloom filters use the real sha256 on the concrete key strings. "
            "KVStore and TransactionManager (SERIALIZABLE / snapshot isolation) are not covered by this check.",
}

HARNESSES = [
    H(name="c14_lsm_sequential", fn=lsm_sequential, shape="S", budget=lambda tier: 900.0 if tier == "quick" else 3000.0,
      cubes=lambda tier: [{"strategy": a, "memtable_minus_1": b, "levels_minus_2": c, "generator_api": g}
                          for a in range(3) for b in range(2) for c in range(2) for g in range(2)],
      require=lambda tier: ["compaction", "data_below_L0", "tombstone_flushed"], classify=classify,
      functions=["LSMTree.put/put_sync/get/get_sync/delete/scan/_flush_memtable(_sync)/_compact(_sync)", "SizeTieredCompaction/LeveledCompaction/FIFOCompaction.*",
                 "Memtable.put/get_sync/flush", "SSTable.get/scan/contains/overlaps", "BloomFilter.add/contains"],
      bounds=lambda tier: {"ops": 4 if tier == "quick" else 5, "keys": 2, "values": "symbolic [1,9]", "memtable size": [1, 2], "levels": [2, 3],
                           "strategies": STRATS, "api": ["sync", "generator (one op at a time)"]},
      outside=["disk model attached (disk=)", "more than 2 keys / 5 operations per script"]),
    H(name="c14_lsm_overlap", fn=lsm_overlap, shape="S", budget=lambda tier: 900.0,
      cubes=lambda tier: [{"second_put_same_key": a} for a in range(2)],
      require=lambda tier: ["read_began_during_flushing_put"], classify=overlap_classify,
      functions=["LSMTree.put/get/_flush_memtable", "Memtable.flush"],
      bounds=lambda tier: {"writer": "put(k0,v1); put(k0|k1,v2) (second put flushes)", "reader": "get(k0) starting at a symbolic ns in [0, 6 ms]", "values": "symbolic"},
      outside=["more than one reader / two writes", "overlap with compaction"]),
    H(name="c14_btree_sequential", fn=btree_sequential, shape="S", budget=lambda tier: 900.0 if tier == "quick" else 3000.0,
      cubes=lambda tier: [{"key0": a, "key1": b} for a in range(4) for b in range(4)],
      require=lambda tier: ["node_split"], classify=classify,
      functions=["BTree.put/get/get_sync/delete/scan/_insert/_insert_non_full/_split_child/_delete/_scan_node"],
      bounds=lambda tier: {"order": 3, "ops": 5, "keys": 4, "values": "symbolic [1,9]"},
      outside=["overlapping B-tree operations in simulated time", "orders other than 3"]),
]


# ------------------------------------------------------------------ transactions
from happysimulator.components.datastore.kv_store import KVStore as _KV
from happysimulator.components.storage.transaction_manager import IsolationLevel, TransactionManager

TX_GAPS = [0.0, 0.002]


def transactions(sym, tier):
    """Two transactions of two operations each (read / write on keys x, y) run as processes against a real
    TransactionManager over a KVStore, the second starting at a symbolic offset, with solver-chosen gaps
    between operations.  SERIALIZABLE: committed transactions' reads and the final state equal some serial
    order.  SNAPSHOT_ISOLATION: each transaction's reads come from one committed state."""
    r = Result()
    iso = [IsolationLevel.SERIALIZABLE, IsolationLevel.SNAPSHOT_ISOLATION][sym.choice("isolation", 2)]
    store = _KV("kv", read_latency=0.001, write_latency=0.001)
    store.put_sync("x", 0)
    store.put_sync("y", 0)
    tm = TransactionManager("tm", store, isolation=iso)
    progs = []
    for t in range(2):
        ops = []
        for j in range(2):
            w = sym.bool(f"t{t}_op{j}_is_write")
            k = "xy"[sym.choice(f"t{t}_op{j}_key", 2)]
            ops.append(("w" if w else "r", k, 10 * (t + 1) + j))
        progs.append(ops)
    gaps = [[0.0, TX_GAPS[sym.choice(f"t{t}_gap1", 2)]] for t in range(2)]
    start2 = sym.int("t1_start_ns", 0, 4_000_000)
    outcome = {}
    commit_order = []
    states = [dict(x=0, y=0)]

    def mk(t):
        def body(self):
            tx = yield from tm.begin()
            reads = []
            for j, (kind, k, v) in enumerate(progs[t]):
                if gaps[t][j]:
                    yield gaps[t][j]
                if kind == "r":
                    got = yield from tx.read(k)
                    reads.append((k, got, k in tx._write_set))
                else:
                    yield from tx.write(k, v)
            ok = yield from tx.commit()
            outcome[t] = (ok, reads)
            if ok:
                commit_order.append(t)
                states.append({kk: store.get_sync(kk) for kk in ("x", "y")})
        return body

    cl = [_Client(f"tx{t}", mk(t)) for t in range(2)]
    sim = Simulation(entities=[store, tm] + cl)
    mon = Monitor(sim, cap=40)
    sim.schedule([mk_event(0, "go", cl[0]), mk_event(start2, "go", cl[1])])
    try:
        sim.run()
    except SpinDetected:
        pass
    mon.judge(r, "transactions")
    final = {kk: store.get_sync(kk) for kk in ("x", "y")}
    committed = [t for t in range(2) if outcome.get(t, (False,))[0]]
    if len(outcome) != 2:
        r.bad("every_transaction_finishes", sorted(outcome))
    if iso == IsolationLevel.SERIALIZABLE:
        import itertools
        ok_any = False
        for perm in itertools.permutations(committed):
            st = dict(x=0, y=0)
            good = True
            for t in perm:
                local = {}
                ri = 0
                for (kind, k, v) in progs[t]:
                    if kind == "r":
                        want = local.get(k, st[k])
                        if outcome[t][1][ri][1] != want:
                            good = False
                        ri += 1
                    else:
                        local[k] = v
                st.update(local)
            if good and st == final:
                ok_any = True
        if not ok_any:
            r.bad("serializable_commits_equal_some_serial_order", {"programs": progs, "outcome": {str(k): [v[0], v[1]] for k, v in outcome.items()}, "final": final})
    else:
        for t in committed:
            rd = [(k, got) for (k, got, own) in outcome[t][1] if not own]
            if rd and not any(all(s_[k] == got for (k, got) in rd) for s_ in states):
                r.bad("snapshot_reads_come_from_one_committed_state", {"tx": t, "reads": rd, "committed_states": states, "programs": progs})
    if len(committed) == 2:
        r.wit.add("both_committed")
    if len(committed) < 2 and len(outcome) == 2:
        r.wit.add("conflict_abort")
    r.obs = {"isolation": iso.value, "programs": progs, "committed": committed, "final": final}
    return r


def tx_classify(clause, draws, obs):
    if clause.startswith("snapshot_reads_come_from_one_committed_state"):
        return "snapshot-isolation-reads-live-store"
    return None


HARNESSES.append(
    H(name="c14_transactions", fn=transactions, shape="S", budget=lambda tier: 900.0 if tier == "quick" else 3000.0,
      cubes=lambda tier: [dict({"isolation": i, "t0_op0_is_write": a, "t0_op1_is_write": b, "t1_op0_is_write": c, "t1_op1_is_write": d},
                               **({"t0_op0_key": 0, "t1_op0_key": 0} if tier == "quick" else {}))
                          for i in range(2) for a in range(2) for b in range(2) for c in range(2) for d in range(2)],
      require=lambda tier: ["both_committed", "conflict_abort"], classify=tx_classify,
      functions=["TransactionManager.begin/_check_conflict", "StorageTransaction.read/write/commit", "KVStore.get/put_sync"],
      bounds=lambda tier: {"transactions": 2, "ops each": 2, "keys": 2, "second start": "symbolic ns [0, 4 ms]", "gaps between ops": TX_GAPS, "isolation": ["SERIALIZABLE", "SNAPSHOT_ISOLATION"]},
      outside=["READ_COMMITTED", "three or more concurrent transactions", "transactions over the LSM tree / B-tree"]))


# ------------------------------------------------------------------ compaction as an inductive step
from happysimulator.components.storage.lsm_tree import _TOMBSTONE as _TS
from happysimulator.components.storage.sstable import SSTable

CKEYS = ["a", "f"]


def compaction_step(sym, tier):
    """Arbitrary level contents, then ONE compaction chosen by the real strategy: compaction must not
    change what any key reads as (a tombstone may only be dropped when nothing older is shadowed).
    State space: two tables in L0 and one in each deeper level; key 'a' is absent / a value / a tombstone
    in each table, key 'f' (which shapes the tables' key ranges) absent / a value.  Below L0 a level holds
    one table, so the reachable-state invariant 'a key lives in at most one table of a level' holds."""
    r = Result()
    levels = 3 + sym.choice("levels_minus_3", 2)
    strat = sym.choice("strategy", 3)
    t = LSMTree("lsm", memtable_size=100, compaction_strategy=_strategy(strat), max_levels=levels)
    seqno = 0
    content = []
    for lv in range(levels):
        tables = []
        for tb in range(2 if lv == 0 else 1):
            d = {}
            st = sym.choice(f"L{lv}t{tb}_a", 3)             # 0 absent, 1 value, 2 tombstone
            if st == 1:
                d["a"] = 100 * lv + 10 * tb + 1
            elif st == 2:
                d["a"] = _TS
            if lv < 3 and sym.bool(f"L{lv}t{tb}_f"):
                d["f"] = 100 * lv + 10 * tb + 2
            if d:
                seqno += 1
                t._levels[lv].append(SSTable(sorted(d.items()), level=lv, sequence=seqno))
                tables.append(d)
        content.append(tables)
    before = {k: t.get_sync(k) for k in CKEYS}
    n_before = sum(len(lv) for lv in t._levels)
    if sym.bool("generator_api"):
        _drive(t._compact())
    else:
        t._compact_sync()
    after = {k: t.get_sync(k) for k in CKEYS}
    if after != before:
        r.bad("compaction_preserves_every_read", {"before": before, "after": after,
              "levels": [[{k: ("T" if v is _TS else v) for k, v in tb.items()} for tb in lv] for lv in content], "strategy": STRATS[strat]})
    if sum(len(lv) for lv in t._levels) < n_before:
        r.wit.add("tables_merged")
    if before["a"] is None and any(tb.get("a") is _TS for lv in content for tb in lv):
        r.wit.add("tombstone_shadows_older_value") if any(tb.get("a") not in (None, _TS) for lv in content for tb in lv) else None
    r.obs = {"before": before}
    return r


HARNESSES.append(
    H(name="c14_compaction_step", fn=compaction_step, shape="I", budget=lambda tier: 900.0 if tier == "quick" else 3000.0,
      cubes=lambda tier: [{"levels_minus_3": a, "strategy": b, "generator_api": g} for a in range(2) for b in range(3) for g in range(2)],
      require=lambda tier: ["tables_merged", "tombstone_shadows_older_value"], classify=classify,
      functions=["LSMTree._compact/_compact_sync", "SizeTieredCompaction/LeveledCompaction/FIFOCompaction.select_compaction", "SSTable.scan/overlaps/get"],
      bounds=lambda tier: {"levels": [3, 4], "tables": "2 in L0, 1 per deeper level", "key a per table": "absent | value | tombstone", "key f per table": "absent | value"},
      outside=["several compactions in a row from one state (covered by the sequential scripts)", "levels below L0 holding several tables"]))
