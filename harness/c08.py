"""C08 — queueing pipelines never lose, duplicate, misorder or strand work."""
from __future__ import annotations

from collections import OrderedDict, deque

from happysimulator.components.queue_policies.deadline_queue import DeadlineQueue
from happysimulator.components.queue_policies.fair_queue import FairQueue
from happysimulator.components.queue_policy import FIFOQueue, LIFOQueue, PriorityQueue
from happysimulator.components.server.server import Server
from happysimulator.core.entity import Entity
from happysimulator.core.simulation import Simulation
from happysimulator.core.temporal import Instant
from happysimulator.distributions.constant import ConstantLatency

from harness.common import Monitor, SpinDetected, mk_event
from vf.harness import H
from vf.sym import Result

POLICIES = ["fifo", "lifo", "priority", "deadline", "fair"]


class _Item:
    __slots__ = ("ident", "key", "flow")

    def __init__(self, ident, key, flow):
        self.ident, self.key, self.flow = ident, key, flow


def policies(sym, tier):
    """push/pop script with symbolic keys (priority / deadline ns / flow) and symbolic capacity on the
    real policy vs. a reference model (deque / stable sort / round robin)."""
    r = Result()
    pol = POLICIES[sym.choice("policy", len(POLICIES))]
    cap = sym.int("capacity", 1, 3)
    n = 5 if tier == "quick" else 6
    now = [0]
    if pol == "fifo":
        q = FIFOQueue(capacity=cap)
    elif pol == "lifo":
        q = LIFOQueue(capacity=cap)
    elif pol == "priority":
        q = PriorityQueue(capacity=cap, key=lambda it: it.key)
    elif pol == "deadline":
        q = DeadlineQueue(get_deadline=lambda it: Instant(it.key), capacity=cap, clock_func=lambda: Instant(now[0]))
    else:
        q = FairQueue(get_flow_id=lambda it: it.flow, max_flows=2, per_flow_capacity=cap)
    ref = []            # reference content in arrival order: items
    rr = OrderedDict()  # fair-queue reference: flow -> deque
    pushed = popped = dropped = expired = 0
    nid = 0
    for s in range(n):
        is_push = sym.bool(f"push{s}") if s > 0 else True
        if pol == "deadline":
            now[0] = now[0] + sym.int(f"dt{s}", 0, 2)
        if is_push:
            it = _Item(nid, sym.int(f"key{s}", 0, 3), "f%d" % sym.choice(f"flow{s}", 2) if pol == "fair" else "f0")
            nid += 1
            ok = q.push(it)
            if pol == "fair":
                fits = (it.flow in rr or len(rr) < 2) and len(rr.get(it.flow, ())) < cap
            else:
                fits = len(ref) < cap
            if ok != fits:
                r.bad("policy_accepts_iff_within_capacity", pol, ok, fits)
                break
            if ok:
                pushed += 1
                ref.append(it)
                if pol == "fair":
                    rr.setdefault(it.flow, deque()).append(it)
            else:
                dropped += 1
        else:
            got = q.pop()
            want = None
            if pol == "fifo":
                want = ref[0] if ref else None
            elif pol == "lifo":
                want = ref[-1] if ref else None
            elif pol == "priority":
                for it in ref:
                    if want is None or it.key < want.key:
                        want = it           # stable: first pushed among equal keys
            elif pol == "deadline":
                live = []
                for it in ref:
                    if it.key < now[0]:
                        pass
                    else:
                        live.append(it)
                for it in live:
                    if want is None or it.key < want.key:
                        want = it
                # everything expired that sorts before the returned item (or everything, if none is live) is discarded
                gone = [it for it in ref if it.key < now[0] and (want is None or it.key < want.key or (it.key == want.key and it.ident < want.ident))]
                for it in gone:
                    ref.remove(it)
                    expired += 1
                r.wit.add("deadline_expired") if gone else None
            else:
                if rr:
                    f, dq = next(iter(rr.items()))
                    want = dq.popleft()
                    rr.move_to_end(f)
                    if not dq:
                        del rr[f]
            if (got is None) != (want is None) or (got is not None and got.ident != want.ident):
                r.bad("policy_pops_in_its_defined_order", pol, None if got is None else got.ident, None if want is None else want.ident,
                      [[i.ident, i.key, i.flow] for i in ref])
                break
            if got is not None:
                popped += 1
                ref.remove(want)
                if any(i.key == want.key and i is not want for i in ref):
                    r.wit.add("equal_keys")
        held = len(q)
        if pol == "deadline":
            if held != len(ref):
                r.bad("policy_conservation", pol, {"pushed": pushed, "popped": popped, "expired": expired, "held": held, "ref": len(ref)})
                break
        elif pushed != popped + held or held != len(ref):
            r.bad("policy_conservation", pol, {"pushed": pushed, "popped": popped, "held": held})
            break
        if held > (cap * 2 if pol == "fair" else cap):
            r.bad("policy_never_exceeds_capacity", pol, held, cap)
        if dropped:
            r.wit.add("rejected_at_capacity")
    r.obs = {"policy": pol, "pushed": pushed, "popped": popped, "dropped": dropped}
    return r


def priority_stability(sym, tier):
    """All items share one priority: PriorityQueue must behave exactly like a FIFO under any
    interleaving of pushes and pops (stable priority)."""
    r = Result()
    n = 8 if tier == "quick" else 10
    q = PriorityQueue(capacity=float("inf"), key=lambda it: it.key)
    prio = sym.int("shared_priority", 0, 3)
    ref = []
    nid = 0
    script = []
    for s_ in range(n):
        if sym.bool(f"push{s_}") or s_ == 0:
            it = _Item(nid, prio, "f0")
            nid += 1
            q.push(it)
            ref.append(it)
            script.append("push")
        else:
            got = q.pop()
            want = ref.pop(0) if ref else None
            script.append("pop")
            if (got is None) != (want is None) or (got is not None and got.ident != want.ident):
                r.bad("equal_priorities_leave_in_arrival_order", {"script": script, "got": None if got is None else got.ident, "want": None if want is None else want.ident})
                break
            if got is not None and ref and nid > len(ref) + 1:
                r.wit.add("pop_with_backlog_after_earlier_pops")
    r.obs = {"script": script}
    return r


# ------------------------------------------------------------------ pipeline
SERVICE = [(1e-9, 1), (3e-9, 3)]
S_NS = 1_000_000_000


class Forwarder(Entity):
    def __init__(self, name, target):
        super().__init__(name)
        self.target = target

    def handle_event(self, event):
        return mk_event(self.now.nanoseconds, event.context["metadata"]["label"], self.target)


class Sink(Entity):
    def __init__(self, name, log):
        super().__init__(name)
        self.log = log

    def handle_event(self, event):
        self.log.append((event.context["metadata"].get("label", event.event_type), self.now.nanoseconds))


def pipeline(sym, tier):
    """m requests with symbolic arrival instants reach a real Server (queue + driver + worker,
    concurrency k, bounded FIFO queue) directly or through a one-hop forwarder (same-ns events of
    different causal depth).  Checked at every clock advance and at quiescence."""
    r = Result()
    m = 3 if tier == "quick" else 4
    k = 1 + sym.choice("concurrency_minus_1", 2)
    qcap = sym.int("queue_capacity", 1, 3)
    svc = sym.choice("service", 2)
    done = []
    sink = Sink("sink", done)
    srv = Server("srv", concurrency=k, service_time=ConstantLatency(SERVICE[svc][0]), queue_capacity=qcap, downstream=sink)
    fwd = Forwarder("fwd", srv)
    sim = Simulation(entities=[srv, fwd, sink])
    mon = Monitor(sim, cap=60)
    ts = [sym.int(f"arrive{i}", 0, 4) for i in range(m)]
    via = [sym.bool(f"via_forwarder{i}") for i in range(m)]
    problems = []

    def on_advance(t):
        if srv.depth > 0 and srv.has_capacity():
            problems.append(("stranded", t.nanoseconds, srv.depth, srv.active_requests))
        if srv.active_requests > k:
            problems.append(("over_concurrency", t.nanoseconds, srv.active_requests))

    sim.control.on_time_advance(on_advance)
    sim.control.on_event(lambda e: problems.append(("over_concurrency", srv.active_requests)) if srv.active_requests > k else None)
    sim.schedule([mk_event(ts[i], f"req{i}", fwd if via[i] else srv) for i in range(m)])
    try:
        sim.run()
    except SpinDetected:
        pass
    mon.judge(r, "pipeline")
    for p in problems[:1]:
        if p[0] == "stranded":
            r.bad("no_time_passes_while_item_waits_and_worker_free", p)
        else:
            r.bad("in_service_never_exceeds_concurrency", p)
    labels = [l for (l, t) in done]
    if len(set(labels)) != len(labels):
        r.bad("request_completed_at_most_once", labels)
    st = srv.stats
    dropped = srv.stats_dropped
    if not mon.spun:
        if srv.depth != 0 or srv.active_requests != 0:
            r.bad("pipeline_drains_at_quiescence", srv.depth, srv.active_requests)
        if len(labels) + dropped + st.requests_rejected != m:
            r.bad("every_request_completed_or_counted_as_rejected", {"completed": labels, "queue_dropped": dropped,
                                                                       "server_rejected": st.requests_rejected, "offered": m})
        if st.requests_completed != len(labels):
            r.bad("completed_counter_matches", st.requests_completed, len(labels))
    if dropped:
        r.wit.add("queue_full_drop")
    if st.requests_rejected:
        r.bad("driver_fetches_work_only_for_a_free_worker_slot", {"server_rejected": st.requests_rejected, "completed": labels, "queue_dropped": dropped,
                                                                    "arrivals_ns": ts, "via_forwarder": via, "concurrency": k, "queue_capacity": qcap})
    if any(via) and not all(via) and len(set(ts)) < m:
        r.wit.add("same_instant_different_hops")
    r.obs = {"done": done, "dropped": dropped, "rejected": st.requests_rejected}
    return r


def dynamic_limit(sym, tier):
    """Server whose concurrency limit is changed while it runs (DynamicConcurrency.set_limit at a
    symbolic instant to a symbolic value, up or down): no item starts service when that would put
    more items in service than the limit in force, the worker never has to turn away an item the
    driver fetched, everything accepted completes exactly once, nothing is stranded."""
    from happysimulator.components.server.concurrency import DynamicConcurrency
    from happysimulator.core.event import Event
    r = Result()
    m = 4 if tier == "quick" else 5
    k0 = 1 + sym.choice("initial_limit_minus_1", 3)
    k1 = 1 + sym.choice("new_limit_minus_1", 3)
    change_at = sym.int("limit_change_at_ns", 0, 6)
    model = DynamicConcurrency(initial=k0, min_limit=1, max_limit=3)
    done = []
    sink = Sink("sink", done)
    srv = Server("srv", concurrency=model, service_time=ConstantLatency(3e-9), queue_capacity=8, downstream=sink)
    sim = Simulation(entities=[srv, sink])
    mon = Monitor(sim, cap=60)
    ts = [sym.int(f"arrive{i}", 0, 3) for i in range(m)]
    problems = []
    last = {"active": 0}

    def on_event(e):
        a = srv.active_requests
        if a > last["active"] and a > model.current_limit:
            problems.append(("started_above_limit", sim._clock.now.nanoseconds, a, model.current_limit))
        last["active"] = a

    def on_advance(t):
        if srv.depth > 0 and srv.has_capacity():
            problems.append(("stranded", t.nanoseconds, srv.depth, srv.active_requests, model.current_limit))

    sim.control.on_event(on_event)
    sim.control.on_time_advance(on_advance)
    evs = [mk_event(ts[i], f"req{i}", srv) for i in range(m)]
    evs.append(Event.once(Instant(change_at), "set_limit", lambda _e: model.set_limit(k1)))
    sim.schedule(evs)
    try:
        sim.run()
    except SpinDetected:
        pass
    mon.judge(r, "dynamic_limit")
    for p in problems[:1]:
        if p[0] == "stranded":
            r.bad("no_time_passes_while_item_waits_and_worker_free", {"at_ns": p[1], "waiting": p[2], "in_service": p[3], "limit": p[4], "change": [change_at, k0, k1]})
        else:
            r.bad("no_item_starts_service_above_the_limit_in_force", {"at_ns": p[1], "in_service": p[2], "limit": p[3], "arrivals_ns": ts, "change": [change_at, k0, k1]})
    labels = [l for (l, t) in done]
    st = srv.stats
    if st.requests_rejected:
        r.bad("driver_fetches_work_only_for_a_free_worker_slot", {"server_rejected": st.requests_rejected, "completed": labels, "arrivals_ns": ts, "change": [change_at, k0, k1]})
    if len(set(labels)) != len(labels):
        r.bad("request_completed_at_most_once", labels)
    if not mon.spun:
        if srv.depth != 0 or srv.active_requests != 0:
            r.bad("pipeline_drains_at_quiescence", srv.depth, srv.active_requests)
        if len(labels) + srv.stats_dropped + st.requests_rejected != m:
            r.bad("every_request_completed_or_counted_as_rejected", {"completed": labels, "offered": m})
    if k1 < k0:
        r.wit.add("limit_lowered")
    if k1 > k0:
        r.wit.add("limit_raised")
    r.obs = {"done": done, "rejected": st.requests_rejected}
    return r


def async_server(sym, tier):
    """3 requests with symbolic arrival instants into a real AsyncServer (one CPU, 2 ns of CPU work per
    request, then an I/O phase that is a 3 ns generator wait or returns at once): every accepted request
    completes exactly once, the CPU queue is never left stranded, nothing is dated before the clock."""
    from happysimulator.components.server.async_server import AsyncServer
    r = Result()
    io_kind = sym.choice("io_phase", 3)          # 0 none, 1 immediate, 2 generator wait
    done = []

    def io(ev):
        lbl = ev.context["metadata"]["label"]
        if io_kind == 1:
            done.append((lbl, "io-immediate"))
            return None

        def g():
            yield 3e-9
            done.append((lbl, "io-done"))
            return None
        return g()

    srv = AsyncServer("as", cpu_work_distribution=ConstantLatency(2e-9), io_handler=(io if io_kind else None))
    sim = Simulation(entities=[srv])
    mon = Monitor(sim, cap=60)
    m = 3
    ts = [sym.int(f"arrive{i}", 0, 4) for i in range(m)]
    sim.schedule([mk_event(ts[i], f"req{i}", srv) for i in range(m)])
    try:
        sim.run()
    except SpinDetected:
        pass
    mon.judge(r, "async_server")
    st = srv.stats
    if not mon.spun and st.requests_completed + st.requests_rejected != m:
        r.bad("every_request_completed_or_counted_as_rejected", {"completed": st.requests_completed, "rejected": st.requests_rejected, "offered": m,
                                                                   "arrivals_ns": ts, "io_phase": io_kind, "cpu_queue_left": len(srv._cpu_queue)})
    if io_kind and len(done) != st.requests_completed:
        r.bad("request_completed_at_most_once", {"io_done": done, "completed": st.requests_completed})
    if len(set(ts)) < m:
        r.wit.add("requests_queue_for_the_cpu")
    if io_kind == 2:
        r.wit.add("generator_io_phase")
    r.obs = {"completed": st.requests_completed}
    return r


def batch_processor(sym, tier):
    """A real BatchProcessor (batch size 1-3, flush timeout none or 5 ns, 2 ns to process a batch) fed 4 items
    at symbolic instants: every item is forwarded exactly once, at the instant the specification gives -
    (arrival of the item that fills its batch, or the timeout counted from the first item of the batch)
    plus the processing time - and nothing is left buffered when a timeout is configured."""
    from happysimulator.components.industrial.batch_processor import BatchProcessor
    r = Result()
    bs = 1 + sym.choice("batch_size_minus_1", 3)
    to_ns = [0, 5][sym.choice("timeout", 2)]
    PT = 2
    done = []
    sink = Sink("sink", done)
    bp = BatchProcessor("bp", downstream=sink, batch_size=bs, process_time=PT * 1e-9, timeout_s=to_ns * 1e-9)
    m = 3 if tier == "quick" else 4
    ts = [sym.int(f"arrive{i}", 0, 8) for i in range(m)]
    sim = Simulation(entities=[bp, sink])
    mon = Monitor(sim, cap=60)
    sim.schedule([mk_event(ts[i], f"item{i}", bp) for i in range(m)])
    try:
        sim.run()
    except SpinDetected:
        pass
    mon.judge(r, "batch_processor")
    # reference: arrivals in (time, creation) order
    order = sorted(range(m), key=lambda i: (ts[i], i))
    expect = {}
    buf, deadline = [], None
    evs = [(ts[i], 1, i) for i in order]
    k = 0
    pending = list(evs)
    while pending or deadline is not None:
        nxt_t = pending[0][0] if pending else None
        if deadline is not None and (nxt_t is None or deadline < nxt_t or (deadline == nxt_t and False)):
            t_ = deadline
            deadline = None
            if buf:
                for j in buf:
                    expect[j] = t_ + PT
                buf = []
            continue
        t_, _k, i = pending.pop(0)
        buf.append(i)
        if len(buf) >= bs:
            for j in buf:
                expect[j] = t_ + PT
            buf, deadline = [], None
        elif len(buf) == 1 and to_ns > 0:
            deadline = t_ + to_ns
    got = {}
    for (lbl, t_) in done:
        got.setdefault(int(lbl[4:]), []).append(t_)
    if any(len(v) != 1 for v in got.values()):
        r.bad("request_completed_at_most_once", {"forwarded": done})
    same_instant_tie = any(ts[a] + to_ns == ts[b] for a in range(m) for b in range(m) if a != b) if to_ns else False
    if not same_instant_tie:      # a timeout at the very instant of an arrival may legitimately go either way
        flat = {i: v[0] for i, v in got.items()}
        if flat != expect:
            r.bad("batch_flushes_when_full_or_at_its_timeout", {"forwarded_at_ns": flat, "specified": expect, "arrivals_ns": ts, "batch_size": bs, "timeout_ns": to_ns})
    if to_ns and bp.buffer_depth:
        r.bad("nothing_left_buffered_when_a_timeout_is_set", bp.buffer_depth)
    if to_ns and any(expect.get(i) == ts[i] + to_ns + PT for i in range(m)):
        r.wit.add("flushed_by_timeout")
    if any(expect.get(i) == ts[i] + PT for i in range(m)):
        r.wit.add("flushed_when_full")
    r.obs = {"done": done}
    return r


def pooled_cycle(sym, tier):
    """3 items with symbolic arrival instants, directly or through a one-hop forwarder, into a real
    PooledCycleResource (pool 1-2 units, 2 ns cycle, waiting room 1-2 or unbounded): every item is completed
    once or counted as rejected, an item admitted to the waiting room is never rejected later, items are
    served in arrival order, never more active cycles than units, nothing waits while a unit is free."""
    from happysimulator.components.industrial.pooled_cycle import PooledCycleResource
    r = Result()
    units = 1 + sym.choice("pool_size_minus_1", 2)
    qcap = sym.choice("queue_capacity", 3)          # 0 = unbounded
    done = []
    sink = Sink("sink", done)
    pc = PooledCycleResource("pc", pool_size=units, cycle_time=2e-9, downstream=sink, queue_capacity=qcap)
    fwd = Forwarder("fwd", pc)
    sim = Simulation(entities=[pc, fwd, sink])
    mon = Monitor(sim, cap=60)
    m = 3
    ts = [sym.int(f"arrive{i}", 0, 4) for i in range(m)]
    via = [sym.bool(f"via_forwarder{i}") for i in range(m)]
    problems = []

    def on_advance(t):
        if pc.queued > 0 and pc.available > 0:
            problems.append(("no_time_passes_while_item_waits_and_worker_free", t.nanoseconds, pc.queued, pc.active))

    def on_event(e):
        if pc.active > units:
            problems.append(("in_service_never_exceeds_concurrency", pc.active))

    sim.control.on_time_advance(on_advance)
    sim.control.on_event(on_event)
    sim.schedule([mk_event(ts[i], f"req{i}", fwd if via[i] else pc) for i in range(m)])
    try:
        sim.run()
    except SpinDetected:
        pass
    mon.judge(r, "pooled_cycle")
    for p_ in problems[:1]:
        r.bad(p_[0], {"detail": p_[1:], "arrivals_ns": ts, "via_forwarder": via, "units": units, "queue_capacity": qcap})
    labels = [l for (l, t) in done]
    if len(set(labels)) != len(labels):
        r.bad("request_completed_at_most_once", labels)
    if not mon.spun and len(labels) + pc.rejected != m:
        r.bad("every_request_completed_or_counted_as_rejected", {"completed": labels, "rejected": pc.rejected, "offered": m})
    if qcap == 0 and pc.rejected:
        r.bad("unbounded_waiting_room_never_rejects", pc.rejected)
    # arrival order at the resource: (instant, one hop later for forwarded items, creation order)
    arr = sorted(range(m), key=lambda i: (ts[i], 1 if via[i] else 0, i))
    served = [int(l[3:]) for l in labels]
    if units == 1 and [i for i in arr if i in served] != served:
        r.bad("items_served_in_arrival_order", {"served": served, "arrival_order": arr, "arrivals_ns": ts, "via_forwarder": via, "queue_capacity": qcap,
                                                 "completions_ns": [t for (l, t) in done]})
    if pc.rejected:
        r.wit.add("rejected_when_full")
    if any(via) and not all(via) and len(set(ts)) < m:
        r.wit.add("same_instant_different_hops")
    r.obs = {"done": done, "rejected": pc.rejected}
    return r


def shifted_server(sym, tier):
    """A real ShiftedServer: 0-1 workers outside the shift, 1-2 workers during the shift [10 s, 20 s), 2 s of
    service; 3 items arrive at symbolic whole seconds in [0, 12] (before or during the shift).  Everything is
    processed exactly once before the shift ends, no item starts while all current workers are busy, and no
    simulated time passes while an item waits and a worker is free (in particular when the shift begins)."""
    from happysimulator.components.industrial.shift_schedule import Shift, ShiftedServer, ShiftSchedule
    r = Result()
    off_cap = sym.choice("workers_outside_shift", 2)
    on_cap = 1 + sym.choice("workers_in_shift_minus_1", 2)
    done = []
    sink = Sink("sink", done)
    sched = ShiftSchedule(shifts=[Shift(start_s=10.0, end_s=20.0, capacity=on_cap)], default_capacity=off_cap)
    srv = ShiftedServer("ss", schedule=sched, service_time=2.0, downstream=sink)
    sim = Simulation(entities=[srv, sink], end_time=Instant.from_seconds(40))
    mon = Monitor(sim, cap=60)
    m = 3
    ts = [sym.int(f"arrive{i}", 0, 12) for i in range(m)]
    problems = []
    last = {"active": 0}

    def on_advance(t):
        if srv.depth > 0 and srv.has_capacity():
            problems.append(("no_time_passes_while_item_waits_and_worker_free", t.nanoseconds // S_NS, srv.depth, srv._active, srv.current_capacity))

    def on_event(e):
        a = srv._active
        if a > last["active"] and a > srv.current_capacity:
            problems.append(("no_item_starts_service_above_the_limit_in_force", sim._clock.now.nanoseconds // S_NS, a, srv.current_capacity))
        last["active"] = a

    sim.control.on_time_advance(on_advance)
    sim.control.on_event(on_event)
    sim.schedule([mk_event(ts[i] * S_NS, f"req{i}", srv) for i in range(m)])
    try:
        sim.run()
    except SpinDetected:
        pass
    mon.judge(r, "shifted_server")
    for p_ in problems[:1]:
        r.bad(p_[0], {"at_s": p_[1], "detail": p_[2:], "arrivals_s": ts, "workers_outside_shift": off_cap, "workers_in_shift": on_cap})
    labels = [l for (l, t) in done]
    if len(set(labels)) != len(labels):
        r.bad("request_completed_at_most_once", labels)
    if not mon.spun and sorted(labels) != sorted(f"req{i}" for i in range(m)):
        r.bad("every_request_completed", {"completed": done, "arrivals_s": ts, "workers_outside_shift": off_cap, "workers_in_shift": on_cap, "left_waiting": srv.depth})
    if off_cap == 0 and any(t < 10 for t in ts):
        r.wit.add("arrival_while_nobody_is_on_shift")
    if off_cap < on_cap:
        r.wit.add("shift_start_adds_workers")
    r.obs = {"done": done}
    return r


def _pipe_classify(clause, draws, obs):
    return None


def _pooled_classify(clause, draws, obs):
    """Known finding: when a cycle ends, PooledCycleResource frees the unit and re-injects the head of its waiting
    room as a new event; an item arriving at that very instant is handled first and takes the unit.  Recognised only
    when nothing is lost and every item that jumped ahead arrived exactly at a completion instant."""
    import json
    if not clause.startswith("items_served_in_arrival_order"):
        return None
    try:
        d = json.loads(clause.split(": ", 1)[1])
    except Exception:
        return None
    served, arr, ts = d["served"], d["arrival_order"], d["arrivals_ns"]
    if sorted(served) != sorted(i for i in arr if i in served):
        return None
    pos = {i: k for k, i in enumerate(arr)}
    comps = set(d["completions_ns"])
    jumpers = [j for k, j in enumerate(served) if any(pos[i] < pos[j] for i in served[k + 1:])]
    if jumpers and all(ts[j] in comps for j in jumpers):
        return "pooled-cycle-arrival-at-a-completion-instant-overtakes-the-waiting-item"
    return None


def _dyn_classify(clause, draws, obs):
    """Known finding: DynamicConcurrency.set_limit() raising the limit does not wake the queue driver, so
    waiting items stay queued until the next arrival or completion.  Recognised only when the free slot
    exists solely because of the raise (in service >= old limit, < new limit) after the change instant."""
    import json
    if not clause.startswith("no_time_passes_while_item_waits_and_worker_free"):
        return None
    try:
        d = json.loads(clause.split(": ", 1)[1])
    except Exception:
        return None
    at, k0, k1 = d["change"]
    if k1 > k0 and d["at_ns"] > at and k0 <= d["in_service"] < k1 and d["limit"] == k1:
        return "raised-concurrency-limit-does-not-wake-the-driver"
    return None


MANIFEST = {
    "note": "Policy keys, capacities, arrival instants are symbolic; service times from a concrete table (1 ns, 3 ns). An item the queue accepted and the worker then turned away "
            "(Server.requests_rejected) is a violation: 'rejected-and-counted' is the queue's own drop counter. Trusted: CrossHair/z3 and the reference queue models in the harness.",
}

HARNESSES = [
    H(name="c08_policies", fn=policies, shape="I", budget=lambda tier: 900.0 if tier == "quick" else 3000.0,
      cubes=lambda tier: [{"policy": p, "push1": a, "push2": b} for p in range(len(POLICIES)) for a in range(2) for b in range(2)],
      require=lambda tier: ["equal_keys", "rejected_at_capacity", "deadline_expired"],
      functions=["FIFOQueue.push/pop", "LIFOQueue.push/pop", "PriorityQueue.push/pop", "DeadlineQueue.push/pop", "FairQueue.push/pop/_remove_flow"],
      bounds=lambda tier: {"ops": 5 if tier == "quick" else 6, "capacity": "symbolic [1,3]", "keys": "symbolic [0,3] (priority / deadline ns)", "flows": 2,
                           "deadline clock": "symbolic non-decreasing"},
      outside=["CoDel / RED / AdaptiveLIFO / WeightedFairQueue policies (drop decisions are probabilistic or time-based; not in the statement's list)"]),
    H(name="c08_priority_stability", fn=priority_stability, shape="I", budget=lambda tier: 900.0,
      cubes=lambda tier: [{"push1": a, "push2": b} for a in range(2) for b in range(2)],
      require=lambda tier: ["pop_with_backlog_after_earlier_pops"],
      functions=["PriorityQueue.push/pop", "_PriorityEntry ordering"],
      bounds=lambda tier: {"ops": 8 if tier == "quick" else 10, "priority": "one symbolic value shared by all items"}),
    H(name="c08_pipeline", fn=pipeline, shape="S", budget=lambda tier: 900.0 if tier == "quick" else 3000.0,
      cubes=lambda tier: [{"concurrency_minus_1": a, "service": s, "via_forwarder0": v, "via_forwarder1": w} for a in range(2) for s in range(2) for v in range(2) for w in range(2)],
      require=lambda tier: ["queue_full_drop", "same_instant_different_hops"], classify=_pipe_classify,
      functions=["Queue._handle_enqueue/_handle_poll", "QueueDriver._handle_notify/_handle_delivery/_handle_work_payload", "QueuedResource.handle_event",
                 "Server.handle_queued_event/has_capacity", "FixedConcurrency.acquire/release"],
      bounds=lambda tier: {"requests": 3 if tier == "quick" else 4, "arrivals": "symbolic ns [0,4], direct or via one forwarder hop", "concurrency": [1, 2],
                           "queue capacity": "symbolic [1,3]", "service ns": [1, 3]},
      outside=["load balancers / routers upstream", "industrial variants (balking, reneging, batch, conveyor, gate, shift schedule)", "weighted concurrency"]),
    H(name="c08_dynamic_limit", fn=dynamic_limit, shape="S", budget=lambda tier: 900.0 if tier == "quick" else 3000.0,
      cubes=lambda tier: [{"initial_limit_minus_1": a, "new_limit_minus_1": b} for a in range(3) for b in range(3)],
      require=lambda tier: ["limit_lowered", "limit_raised"], classify=_dyn_classify,
      functions=["DynamicConcurrency.set_limit/acquire/release/has_capacity", "QueueDriver._handle_notify/_handle_work_payload", "Server.handle_queued_event"],
      bounds=lambda tier: {"requests": 4 if tier == "quick" else 5, "arrivals": "symbolic ns [0,3]", "service ns": 3, "limit": "1..3 -> 1..3 at a symbolic ns in [0,6]"},
      outside=["ShiftedServer / ShiftSchedule capacity changes", "more than one limit change"]),
    H(name="c08_async_server", fn=async_server, shape="S", budget=lambda tier: 600.0,
      cubes=lambda tier: [{"io_phase": a} for a in range(3)],
      require=lambda tier: ["requests_queue_for_the_cpu", "generator_io_phase"], classify=_pipe_classify,
      functions=["AsyncServer.handle_event/_start_cpu_processing/_on_cpu_complete/_process_next_cpu_task/_complete_request"],
      bounds=lambda tier: {"requests": 3, "arrivals": "symbolic ns [0,4]", "cpu ns": 2, "io phase": ["none", "immediate", "3 ns generator wait"]},
      outside=["max_connections rejections", "I/O handlers that emit events"]),
    H(name="c08_batch_processor", fn=batch_processor, shape="S", budget=lambda tier: 900.0,
      cubes=lambda tier: [{"batch_size_minus_1": a, "timeout": b} for a in range(3) for b in range(2)],
      require=lambda tier: ["flushed_by_timeout", "flushed_when_full"], classify=_pipe_classify,
      functions=["BatchProcessor.handle_event/_handle_timeout/_process_batch"],
      bounds=lambda tier: {"items": 3 if tier == "quick" else 4, "arrivals": "symbolic ns [0,8]", "batch size": [1, 2, 3], "timeout ns": [0, 5], "process ns": 2},
      outside=["a timeout falling on the very instant of an arrival (either order accepted)", "other industrial variants: balking, reneging, conveyor, gate, pooled cycle, shift schedule"]),
    H(name="c08_pooled_cycle", fn=pooled_cycle, shape="S", budget=lambda tier: 900.0,
      cubes=lambda tier: [{"pool_size_minus_1": a, "queue_capacity": b, "via_forwarder0": c} for a in range(2) for b in range(3) for c in range(2)],
      require=lambda tier: ["rejected_when_full", "same_instant_different_hops"], classify=_pooled_classify,
      functions=["PooledCycleResource.handle_event/_start_cycle"],
      bounds=lambda tier: {"items": 3, "arrivals": "symbolic ns [0,4], direct or via one forwarder hop", "units": [1, 2], "cycle ns": 2, "waiting room": ["unbounded", 1, 2]},
      outside=["other industrial variants: balking, reneging, conveyor, gate, shift schedule"]),
    H(name="c08_shifted_server", fn=shifted_server, shape="S", budget=lambda tier: 900.0,
      cubes=lambda tier: [{"workers_outside_shift": a, "workers_in_shift_minus_1": b} for a in range(2) for b in range(2)],
      require=lambda tier: ["arrival_while_nobody_is_on_shift", "shift_start_adds_workers"], classify=_pipe_classify,
      functions=["ShiftedServer.handle_event/_handle_shift_change/_schedule_next_shift/handle_queued_event/has_capacity", "ShiftSchedule.capacity_at/next_transition_after", "QueueDriver.*"],
      bounds=lambda tier: {"items": 3, "arrivals": "symbolic whole seconds [0,12]", "shift": "[10 s, 20 s)", "workers": "0-1 outside, 1-2 inside the shift", "service s": 2},
      outside=["several shifts", "items arriving after the shift", "other industrial variants: balking, reneging, conveyor, gate"]),
]
