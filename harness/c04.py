"""C04 — observing, pausing or stepping a run does not change it."""
from __future__ import annotations

import happysimulator.core.event as event_mod
from happysimulator.core.control.breakpoints import EventCountBreakpoint, EventTypeBreakpoint, TimeBreakpoint
from happysimulator.core.temporal import Instant
from happysimulator.instrumentation.recorder import InMemoryTraceRecorder

from harness.c01 import NKINDS, Model, _params
from vf.harness import H
from vf.sym import Result

_NOFLAGS = {"daemon1": 0, "daemon2": 0, "cdm0a": 0, "cdm1a": 0}


def _run(P, how, hooks=None):
    """Run the C01 scenario program under one observation mode; returns the Model."""
    m = Model(P)
    kw = {}
    if how == "recorder":
        kw["trace_recorder"] = InMemoryTraceRecorder()
    sim = m.make_sim(**kw)
    if how in ("control", "hooks"):
        c = sim.control
        if how == "hooks":
            c.on_event(lambda e: hooks.append(("ev", e.event_type)))
            c.on_time_advance(lambda t: hooks.append(("t", t.nanoseconds)))
    m.schedule()
    if how == "tracing":
        event_mod.enable_event_tracing()
        try:
            sim.run()
        finally:
            event_mod.disable_event_tracing()
    else:
        sim.run()
    return m


def modes(sym, tier):
    """Same program, five observation modes (fast loop / control attached / trace recorder /
    event tracing / control+hooks): identical delivery logs and counters."""
    r = Result()
    P = _params(sym, tier)
    base = _run(P, "plain")
    ref = base.deliveries()
    for how in ("control", "recorder", "tracing", "hooks"):
        hooks = []
        m = _run(P, how, hooks)
        got = m.deliveries()
        if got != ref:
            r.bad("observation_mode_changes_deliveries", how, {"plain": ref, how: got})
        if m.sim._events_processed != base.sim._events_processed:
            r.bad("observation_mode_changes_event_count", how, m.sim._events_processed, base.sim._events_processed)
        if how == "hooks" and len([h for h in hooks if h[0] == "ev"]) != len(got):
            r.bad("event_hook_called_once_per_delivery", len(hooks), len(got))
    if P["mode"] != 0 and len(ref) >= 3:
        r.wit.add("fast_loop_vs_instrumented_with_3_deliveries")
    if any(a[2] == b[2] for a, b in zip(ref, ref[1:])):
        r.wit.add("tie")
    r.obs = {"log": ref}
    return r


def stepping(sym, tier):
    """pause(); run(); then a symbolic script of step(k)/pause+resume/breakpoint; final resume():
    same log as the uninterrupted run; step(k) delivers exactly min(k, remaining) events."""
    r = Result()
    P = _params(sym, tier)
    ref = _run(P, "control").deliveries()
    m = Model(P)
    sim = m.make_sim()
    c = sim.control
    m.schedule()
    c.pause()
    sim.run()
    if m.log:
        r.bad("pause_before_run_delivers_nothing", len(m.log))
    nsteps = 2 if tier == "quick" else 3
    for s in range(nsteps):
        if not c.is_paused:
            break
        act = sym.choice(f"act{s}", 3)
        before = len(m.log)
        remaining = len(ref) - before
        if act == 0:
            k = sym.int(f"k{s}", 1, 3)
            c.step(k)
            got = len(m.log) - before
            want = k if k <= remaining else remaining
            if got != want:
                r.bad("step_n_delivers_exactly_n", {"k": k, "delivered": got, "remaining": remaining})
            st = c.get_state()
            if st.events_processed != len(m.log):
                r.bad("state_counter_matches_deliveries", st.events_processed, len(m.log))
            if remaining > k:
                r.wit.add("step_paused_midway")
                if not c.is_paused:
                    r.bad("step_pauses_after_n", k)
        elif act == 1:
            cnt = sym.int(f"count{s}", 1, 4)
            c.add_breakpoint(EventCountBreakpoint(count=cnt))
            c.resume()
            got = len(m.log) - before
            # pauses right after the first delivery with events_processed >= cnt
            want = (cnt - before) if cnt > before else 1
            want = want if want <= remaining else remaining
            if got != want:
                r.bad("count_breakpoint_pauses_after_first_satisfying_delivery", {"count": cnt, "before": before, "delivered": got, "remaining": remaining})
            if got < remaining:
                r.wit.add("count_breakpoint_hit")
        else:
            t = sym.int(f"bt{s}", 0, 3)
            c.add_breakpoint(TimeBreakpoint(time=Instant(t)))
            c.resume()
            got = len(m.log) - before
            want = 0
            for (l, w, clk) in ref[before:]:
                want += 1
                if clk >= t:
                    break
            if got != want:
                r.bad("time_breakpoint_pauses_after_first_satisfying_delivery", {"t": t, "before": before, "delivered": got, "ref_tail": ref[before:]})
            if got < remaining:
                r.wit.add("time_breakpoint_hit")
    if c.is_paused:
        c.resume()
    if c.is_paused:
        r.bad("resume_runs_to_completion")
    if m.deliveries() != ref:
        r.bad("interrupted_run_equals_uninterrupted_run", {"ref": ref, "got": m.deliveries()})
    r.obs = {"log": ref}
    return r


def reset(sym, tier):
    """run(); control.reset(); run() repeats the delivery sequence (stateless entities,
    handlers that do not cancel captured events)."""
    r = Result()
    P = _params(sym, tier)
    m = Model(P)
    sim = m.make_sim()
    sim.control
    m.schedule()
    sim.run()
    first = m.deliveries()
    del m.log[:]
    sim.control.reset()
    if sim.control.get_state().events_processed != 0:
        r.bad("reset_clears_counters")
    sim.run()
    second = m.deliveries()
    if first != second:
        r.bad("reset_then_run_repeats_sequence", {"first": first, "second": second})
    if len(first) >= 3:
        r.wit.add("three_deliveries")
    if any(a[2] == b[2] for a, b in zip(first, first[1:])):
        r.wit.add("tie")
    if P["cancel"][1]:
        r.wit.add("pre_run_cancel")
    r.obs = {"log": first}
    return r


def _reset_classify(clause, draws, obs):
    """Known finding: an event cancelled before the first run is re-created un-cancelled by reset().
    Recognised only when p1 was cancelled before the run, is absent from the first run and the second
    run equals the first plus p1 and its descendants (everything else is still a violation)."""
    import json
    d = dict((k, v) for k, v in draws)
    if not clause.startswith("reset_then_run_repeats_sequence") or d.get("cancel1") != 1:
        return None
    try:
        detail = json.loads(clause.split(": ", 1)[1])
    except Exception:
        return None
    first = [tuple(x) for x in detail["first"]]
    second = [tuple(x) for x in detail["second"]]
    if any(x[0] == "p1" for x in first) or not any(x[0] == "p1" for x in second):
        return None
    rest = [x for x in second if not (x[0] == "p1" or x[0].startswith("p1."))]
    if rest == first:
        return "reset-forgets-pre-run-cancellation"
    return None


def _cubes_modes(tier):
    ks = [(1, 0), (2, 1), (3, 0), (3, 1), (4, 1)] if tier == "quick" else [(1, 0), (2, 1), (3, 0), (3, 1), (4, 1), (2, 0), (4, 0), (1, 1), (2, 2)]
    out = []
    for m in (1, 2) if tier == "quick" else (0, 1, 2):
        for a, b in ks:
            out.append(dict(dict(_NOFLAGS, t2=2, cancel1=0) if tier == "quick" else dict(_NOFLAGS), mode=m, kind0=a, kind1=b))
    return out


def _cubes_step(tier):
    ks = [(1, 0), (2, 0), (3, 0), (1, 1)] if tier == "quick" else [(1, 0), (2, 0), (3, 0), (4, 0), (1, 1), (2, 1)]
    extra = {"t1": 1, "t2": 2} if tier == "quick" else {"t2": 2}
    return [dict(_NOFLAGS, mode=mm, kind0=a, kind1=b, cancel1=0, act0=x, **extra) for mm in ((0,) if tier == "quick" else (0, 2)) for a, b in ks for x in range(3)]


def _cubes_reset(tier):
    ks = [(0, 0), (1, 0), (2, 1), (3, 1)] if tier == "quick" else [(a, b) for a in (0, 1, 2, 3) for b in (0, 1, 2)]
    extra = {"t2": 2}
    return [dict(_NOFLAGS, mode=mm, kind0=a, kind1=b, **extra) for mm in (0, 2) for a, b in ks]


MANIFEST = {
    "note": "Trusted: CrossHair/z3; the program generator shared with C01. Observation through visual.code_debugger / the browser bridge is outside.",
}

HARNESSES = [
    H(name="c04_modes", fn=modes, shape="N", cubes=_cubes_modes, budget=lambda tier: 900.0 if tier == "quick" else 3000.0,
      require=lambda tier: ["fast_loop_vs_instrumented_with_3_deliveries", "tie"],
      functions=["Simulation._run_loop", "Simulation._execute_until", "Simulation._run_loop_fast", "SimulationControl._notify_event_processed",
                 "SimulationControl._notify_time_advance", "InMemoryTraceRecorder.record", "enable_event_tracing", "Event.trace"],
      bounds=lambda tier: {"program": "C01 scenario program (3 pre-run events, spawn table)", "modes": ["plain", "control", "recorder", "tracing", "control+hooks"]},
      outside=["code-debugger tracing (visual.code_debugger)", "the visual bridge"]),
    H(name="c04_stepping", fn=stepping, shape="S", cubes=_cubes_step, budget=lambda tier: 900.0 if tier == "quick" else 3000.0,
      require=lambda tier: ["step_paused_midway", "count_breakpoint_hit", "time_breakpoint_hit"],
      functions=["SimulationControl.pause/resume/step/add_breakpoint/get_state/_should_pause/_check_breakpoints", "Simulation.run (re-entrant)",
                 "Simulation._pause_simulation", "EventCountBreakpoint.should_break", "TimeBreakpoint.should_break"],
      bounds=lambda tier: {"control actions": 2 if tier == "quick" else 3, "step size": "symbolic [1,3]", "count breakpoint": "symbolic [1,4]", "time breakpoint": "symbolic ns [0,3]"},
      outside=["MetricBreakpoint / ConditionBreakpoint (user predicates)", "pause() requested from inside a handler"]),
    H(name="c04_reset", fn=reset, shape="S", cubes=_cubes_reset, budget=lambda tier: 900.0 if tier == "quick" else 3000.0,
      require=lambda tier: ["three_deliveries", "tie", "pre_run_cancel"],
      functions=["SimulationControl.reset", "Simulation._replay_pre_run_events", "Simulation._save_event_specs", "EventHeap.seed_event_counter"],
      bounds=lambda tier: {"program": "C01 scenario program without the cancel-by-handler kind"},
      outside=["resetting models with sources/probes (re-primed by Source.start, covered only by C08 scenarios)", "stateful entities (excluded by the statement)"]),
]


# ------------------------------------------------------------------ stepping a queueing pipeline
from happysimulator.components.server.server import Server
from happysimulator.core.simulation import Simulation
from happysimulator.distributions.constant import ConstantLatency

from harness.c08 import Forwarder, Sink
from harness.common import mk_event


def _pipeline(P, interrupt):
    done = []
    sink = Sink("sink", done)
    back = Server("back", concurrency=1, service_time=ConstantLatency(8e-9), queue_capacity=4, downstream=sink)
    front = Server("front", concurrency=P.get("front_concurrency", 2), service_time=ConstantLatency(1e-9), queue_capacity=4, downstream=back)
    fwd = Forwarder("fwd", front)
    sim = Simulation(entities=[front, back, fwd, sink])
    c = sim.control
    sim.schedule([mk_event(P["ts"][i], f"req{i}", fwd if P["via"][i] else front) for i in range(len(P["ts"]))])
    if interrupt is not None:
        c.pause()
        sim.run()
        for k in interrupt:
            if not c.is_paused:
                break
            c.step(k)
        if c.is_paused:
            c.resume()
    else:
        sim.run()
    return done, back.stats.requests_rejected, back.stats_dropped, front.stats_dropped, sim._events_processed


def pipeline_stepping(sym, tier):
    """A two-stage Server pipeline (events waiting in queue buffers, outside the heap) driven by
    pause / step(k1) / step(k2) / resume ends exactly like the uninterrupted run."""
    r = Result()
    m = 3
    P = {"ts": [sym.int(f"arrive{i}", 0, 3) for i in range(m)], "via": [sym.bool(f"via_forwarder{i}") for i in range(m)],
         "front_concurrency": 1 + sym.choice("front_concurrency_minus_1", 2)}
    ref = _pipeline(P, None)
    ks = [sym.int("k1", 1, 60)] + ([sym.int("k2", 1, 20)] if tier != "quick" else [])
    got = _pipeline(P, ks)
    if got != ref:
        r.bad("stepped_pipeline_equals_uninterrupted_run", {"uninterrupted": ref, "stepped": got, "steps": ks})
    if len(ref[0]) >= 2:
        r.wit.add("two_completions")
    if sum(ks) < ref[4]:
        r.wit.add("paused_midway")
    r.obs = {"done": ref[0], "events": ref[4]}
    return r


HARNESSES.append(
    H(name="c04_pipeline_stepping", fn=pipeline_stepping, shape="N", budget=lambda tier: 900.0 if tier == "quick" else 3000.0,
      cubes=lambda tier: [{"arrive0": a, "via_forwarder0": 0, "via_forwarder1": b, "via_forwarder2": 0, "front_concurrency_minus_1": c}
                          for a in range(2) for b in range(2) for c in range(2)],
      require=lambda tier: ["two_completions", "paused_midway"],
      functions=["Simulation.run (re-entrant)", "SimulationControl.step/resume", "Queue._handle_enqueue/_handle_poll", "QueueDriver._handle_work_payload"],
      bounds=lambda tier: {"pipeline": "forwarder -> Server(concurrency 1 or 2, 1 ns) -> Server(concurrency 1, 8 ns) -> sink", "requests": 3,
                           "arrivals": "first at 0 or 1 ns, the others symbolic ns [0,3]; only request 1 may go through the forwarder",
                           "interruptions": "step(k1)[, step(k2)], resume with symbolic k1 in [1,60], k2 in [1,20] (thorough only)"}))


def reset_context(sym, tier):
    """Stateless relays whose handlers mutate the delivered event's metadata in place (a ttl counter,
    optionally a nested hop list) and forward it, sharing or copying the context: run(); reset();
    run() repeats the delivery sequence, and equals the run of a freshly built identical model."""
    from happysimulator.core.entity import Entity
    from happysimulator.core.event import Event
    from happysimulator.core.simulation import Simulation
    r = Result()
    n = 2
    ttl = [sym.int(f"ttl{i}", 0, 3) for i in range(n)]
    t0 = [sym.int(f"t{i}", 0, 2) for i in range(n)]
    nested = sym.bool("nested_hop_list")
    share = sym.bool("forward_shares_context")

    def build():
        log = []

        class Relay(Entity):
            def handle_event(self, event):
                md = event.context["metadata"]
                log.append((md["label"], md["ttl"], len(md["hops"]) if nested else 0, self.now.nanoseconds, self.name))
                if md["ttl"] <= 0 or (nested and len(md["hops"]) >= 2):
                    return None                         # behaviour depends on the flat counter and on the nested list
                md["ttl"] -= 1                          # in-place mutation of the delivered event's metadata
                if nested:
                    md["hops"].append(self.name)
                ctx = event.context if share else {"metadata": dict(md)}
                return Event(time=self.now + 1e-9, event_type="hop", target=self.peer, context=ctx)

        a, b = Relay("ra"), Relay("rb")
        a.peer, b.peer = b, a
        sim = Simulation(entities=[a, b])
        evs = []
        for i in range(n):
            md = {"label": f"p{i}", "ttl": ttl[i]}
            if nested:
                md["hops"] = []
            evs.append(Event(time=Instant(t0[i]), event_type="inject", target=(a, b)[i % 2], context={"metadata": md}))
        sim.schedule(evs)
        return sim, log

    sim, log = build()
    sim.control
    sim.run()
    first = list(log)
    del log[:]
    sim.control.reset()
    sim.run()
    second = list(log)
    sim2, log2 = build()
    sim2.run()
    fresh = list(log2)
    if first != fresh:
        r.bad("same_model_same_run", {"first": first, "fresh": fresh})
    if second != first:
        r.bad("reset_then_run_repeats_sequence", {"first": first, "second": second, "nested_hop_list": nested, "forward_shares_context": share})
    if len(first) > n:
        r.wit.add("forwarded")
    if nested:
        r.wit.add("nested_mutation")
    r.obs = {"first": first}
    return r


def _ctx_classify(clause, draws, obs):
    """Known finding: reset() re-creates pre-run events from a shallow copy of their metadata, so a nested
    mutable value (here the hop list) is shared with the first run's event.  Recognised only for the
    nested cubes and only when the re-created events arrive with a non-empty hop list."""
    import json
    d = dict((k, v) for k, v in draws)
    if not clause.startswith("reset_then_run_repeats_sequence") or d.get("nested_hop_list") != 1:
        return None
    try:
        detail = json.loads(clause.split(": ", 1)[1])
    except Exception:
        return None
    second = detail["second"]
    firsts = {}
    for (label, ttl, hops, t, ent) in second:
        firsts.setdefault(label, hops)
    if second and any(h > 0 for h in firsts.values()):
        return "reset-shares-nested-metadata-with-the-first-run"
    return None


HARNESSES.append(
    H(name="c04_reset_context", fn=reset_context, shape="N", budget=lambda tier: 600.0, classify=_ctx_classify,
      cubes=lambda tier: [{"nested_hop_list": a, "forward_shares_context": b} for a in range(2) for b in range(2)],
      require=lambda tier: ["forwarded", "nested_mutation"],
      functions=["Simulation.schedule/_save_event_specs/_replay_pre_run_events", "SimulationControl.reset", "Simulation.run"],
      bounds=lambda tier: {"pre-run events": 2, "ttl": "symbolic 0..3", "injection instants": "symbolic ns 0..2", "metadata mutation": "ttl counter, optionally a nested list", "forwarding": "shares or copies the context"}))
