"""C07 — no library component emits an event into the past or spins at a frozen clock.

A universally quantified statement over every component and workload cannot be discharged by a finite set
of harnesses.  Claimed scope: the component scenarios below, each run inside the real engine with the C07
monitor attached (harness.common.Monitor): every event pushed during the run must carry a timestamp >= the
clock at push time, and no simulated instant may see more deliveries than a bound derived from the finite
workload.  Only those two clauses are judged here; the scenarios' other oracles belong to their own
properties."""
from __future__ import annotations

from harness import c02, c06, c08, c09, c10, c13, c14, c16, c17, c19
from vf.harness import H
from vf.sym import Result

CLAUSES = ("no_spin_at_frozen_clock", "no_event_into_the_past")


def _only_c07(fn):
    def wrapped(sym, tier):
        res = fn(sym, "quick")      # the scenarios keep their quick-tier bounds; the thorough tier adds scenario sets
        out = Result()
        out.fail = [f for f in res.fail if (f[0] if not isinstance(f, str) else f).startswith(CLAUSES)]
        out.wit = set(res.wit)
        out.obs = res.obs
        return out
    wrapped.__name__ = fn.__name__
    return wrapped


def _pick(mod, name):
    return next(h for h in mod.HARNESSES if h.name == name)


_SOURCES = [
    (c09, "c09_sync_scenario", "Mutex, Semaphore, RWLock, Barrier, Condition under contention"),
    (c19, "c19_message_queue", "MessageQueue with non-zero delivery latency, DLQ"),
    (c19, "c19_assignment", "ConsumerGroup join/leave/commit over EventLog"),
    (c19, "c19_topic_fanout", "Topic fan-out with non-zero delivery latency"),
    (c19, "c19_outbox_relay", "OutboxRelay poll loop with non-zero relay latency"),
    (c08, "c08_pipeline", "Server = Queue + QueueDriver + worker, bounded queue, forwarder"),
    (c10, "c10_entity", "RateLimitedEntity drain loop with token/leaky/fixed-window policies"),
    (c02, "c02_script", "generator processes, futures, any_of/all_of"),
    (c13, "c13_cluster_run", "MembershipProtocol cluster on a Network"),
    (c14, "c14_lsm_overlap", "LSMTree put/get with flush in progress"),
    (c16, "c16_store_overlap", "CachedStore over KVStore with overlapping get/put"),
    (c17, "c17_primary_backup", "PrimaryNode/BackupNode over Network (all modes)"),
    (c17, "c17_chain", "ChainNode x3 (CRAQ) over Network"),
]

HARNESSES = []
for _mod, _name, _what in _SOURCES:
    _h = _pick(_mod, _name)
    HARNESSES.append(H(name="c07_" + _name[4:], fn=_only_c07(_h.fn), shape="S", cubes=(lambda tier, _c=_h.cubes: _c("quick")),
                       budget=(lambda tier, _b=_h.budget: _b("quick")),
                       per_path_timeout=_h.per_path_timeout, require=lambda tier: [], classify=None,
                       functions=list(_h.functions), bounds=(lambda tier, _bd=_h.bounds: _bd("quick")),
                       outside=[], assumptions=list(_h.assumptions),
                       tiers=("thorough",) if _name in ("c02_script", "c17_chain") else ("quick", "thorough")))

HARNESSES[0].outside = [
    "components not exercised by the scenarios listed in functions_aimed_at: deployment, scheduling, behaviour, advertising, most of infrastructure/, "
    "industrial variants, load balancers, resilience wrappers, streaming processors, microservice helpers",
    "workloads beyond each scenario's stated bounds",
]

MANIFEST = {
    "text": "bounded symbolic model checking of engine scenarios for an enumerated component set with the push-time / per-instant delivery monitor "
            "attached; the universal statement over every component is NOT claimed, only the listed scenarios",
    "note": "Scope is the enumerated scenario set (sync primitives, message queue, consumer group, server pipeline, rate-limited entity, generator/future "
            "engine paths, membership, LSM, cached store, primary-backup, chain). Components outside it are not covered. The per-instant delivery cap is "
            "derived per scenario from its finite workload (several times the number of events it can legitimately create).",
}


# ------------------------------------------------------------------ LSM tree: overlapping flushes / compactions
from happysimulator.components.storage.lsm_tree import LSMTree, SizeTieredCompaction
from happysimulator.core.entity import Entity
from happysimulator.core.event import Event
from happysimulator.core.simulation import Simulation
from happysimulator.core.temporal import Instant

from harness.common import Monitor, SpinDetected, mk_event


class _W(Entity):
    def __init__(self, name, body):
        super().__init__(name)
        self.body = body

    def handle_event(self, event):
        return self.body(self)


def lsm_compaction(sym, tier):
    """Two writers (3 puts each, memtable_size 1, size-tiered compaction from 2 tables) plus an external
    CompactionTrigger at a symbolic instant, so that flushes and compaction cycles overlap in simulated time."""
    r = Result()
    t = LSMTree("lsm", memtable_size=1, compaction_strategy=SizeTieredCompaction(min_sstables=2), max_levels=3)
    start2 = sym.int("writer2_start_ns", 0, 6_000_000)
    trig = sym.int("compaction_trigger_ns", 0, 12_000_000)
    done = []

    def mk(i):
        def body(self):
            for j in range(3):
                yield from t.put(f"k{i}{j}", 10 * i + j)
            done.append(i)
        return body

    ws = [_W("w0", mk(0)), _W("w1", mk(1))]
    sim = Simulation(entities=[t] + ws)
    mon = Monitor(sim, cap=80)
    sim.schedule([mk_event(0, "go", ws[0]), mk_event(start2, "go", ws[1]),
                  Event(time=Instant(trig), event_type="CompactionTrigger", target=t)])
    try:
        sim.run()
    except SpinDetected:
        pass
    mon.judge(r, "lsm_compaction")
    if not mon.spun and sorted(done) != [0, 1]:
        r.bad("no_spin_at_frozen_clock", "lsm_compaction: writers never finished", done)
    if t.stats.compactions >= 1:
        r.wit.add("compaction_ran")
    r.obs = {"compactions": t.stats.compactions, "flushes": t.stats.memtable_flushes}
    return r


HARNESSES.append(
    H(name="c07_lsm_compaction", fn=lsm_compaction, shape="S", budget=lambda tier: 900.0,
      require=lambda tier: ["compaction_ran"],
      functions=["LSMTree.put/_flush_memtable/_compact/handle_event"],
      bounds=lambda tier: {"writers": 2, "puts each": 3, "second writer start": "symbolic ns [0, 6 ms]", "CompactionTrigger": "symbolic ns [0, 12 ms]"}))


# ------------------------------------------------------------------ self-scheduling GC cycle
_GC_PAUSE_S = [0.0, 0.4, 1.0, 1.2]
_GC_INTERVAL_S = [0.5, 1.0]


def gc_cycle(sym, tier):
    """GarbageCollector's scheduled cycle (prime() -> collect -> pause -> schedule next) with a strategy
    whose pause per collection is chosen by the solver from {0, 0.4, 1.0, 1.2} s (shorter than, equal to
    and longer than the collection interval): no event is stamped before the clock, the cycle never
    stops by itself and never spins."""
    from happysimulator.components.infrastructure.garbage_collector import GarbageCollector, GCStrategy
    from happysimulator.core.simulation import Simulation
    from happysimulator.core.temporal import Instant
    from harness.common import Monitor, SpinDetected, mk_event
    from harness.c16 import _Client
    r = Result()
    interval = _GC_INTERVAL_S[sym.choice("interval", len(_GC_INTERVAL_S))]
    ncol = 4 if tier == "quick" else 5
    pauses = [_GC_PAUSE_S[sym.choice(f"pause{i}", len(_GC_PAUSE_S))] for i in range(ncol)]
    calls = [0]

    class Table(GCStrategy):
        def pause_duration_s(self, heap_pressure):
            i = calls[0]
            calls[0] += 1
            return pauses[i] if i < len(pauses) else 0.1

        def collection_interval_s(self):
            return interval

        @property
        def name(self):
            return "table"

    gc = GarbageCollector("gc", strategy=Table())
    idle = _Client("idle", lambda s_: None)
    horizon = sum(pauses) + ncol * interval
    sim = Simulation(entities=[gc, idle], end_time=Instant.from_seconds(horizon + 0.25))
    mon = Monitor(sim, cap=40)
    sim.schedule([gc.prime(), mk_event(int((horizon + 0.2) * 1e9), "keepalive", idle)])
    try:
        sim.run()
    except SpinDetected:
        pass
    mon.judge(r, "gc_cycle")
    if not mon.spun and gc.collection_count < ncol:
        r.bad("no_event_into_the_past", "gc_cycle", {"collections": gc.collection_count, "expected_at_least": ncol, "pauses_s": pauses, "interval_s": interval,
                                                     "note": "the self-scheduling cycle stopped (its next event was discarded)"})
    if any(p > interval for p in pauses):
        r.wit.add("pause_longer_than_interval")
    r.obs = {"collections": gc.collection_count}
    return r


HARNESSES.append(H(name="c07_gc_cycle", fn=gc_cycle, shape="S", budget=lambda tier: 600.0,
                   cubes=lambda tier: [{"interval": a, "pause0": b} for a in range(len(_GC_INTERVAL_S)) for b in range(len(_GC_PAUSE_S))],
                   require=lambda tier: ["pause_longer_than_interval"],
                   functions=["GarbageCollector.prime/handle_event/_do_collect/_schedule_next", "GCStrategy (harness-defined table strategy)"],
                   bounds=lambda tier: {"collections": 4 if tier == "quick" else 5, "pause per collection (s)": _GC_PAUSE_S, "collection interval (s)": _GC_INTERVAL_S},
                   outside=["the built-in strategies' pressure formulas (floats)"]))
