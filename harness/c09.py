"""C09 — capacity primitives never over-admit or leak, wake in order, let time pass."""
from __future__ import annotations

from happysimulator.components.resource import Grant, Resource, _Waiter
from happysimulator.core.sim_future import SimFuture

from vf.harness import H
from vf.sym import Result


# ------------------------------------------------------------------ Resource: inductive step
def resource_step(sym, tier):
    """From an arbitrary Resource state satisfying the representation invariant, one
    operation (acquire / try_acquire / release / double release) with a symbolic amount
    keeps the invariant and the property's clauses."""
    r = Result()
    C = sym.int("capacity", 1, 4)
    res = Resource("r", C)
    ngr = sym.choice("n_grants", 3)
    grants = []
    held = 0
    for i in range(ngr):
        g = sym.int(f"grant{i}", 1, 4)
        held = held + g
        grants.append(Grant(res, g))
    if held > C:
        return r                      # not a state: outstanding amount cannot exceed capacity
    res._available = C - held
    nw = sym.choice("n_waiters", 3)
    waiters = []
    for i in range(nw):
        w = sym.int(f"waiter{i}", 1, 4)
        if w > C:
            return r                  # acquire() rejects amounts above capacity
        f = SimFuture()
        waiters.append((w, f))
        res._waiters.append(_Waiter(amount=w, future=f, enqueue_time_ns=-1))
    if nw > 0 and not (waiters[0][0] > res._available):
        return r                      # invariant: the head waiter does not fit (else it would have been woken)
    avail0 = res._available
    op = sym.choice("op", 4)
    new_grant = None
    new_future = None
    x = None
    released = 0
    if op == 0:
        x = sym.int("amount", 1, 4)
        if x > C:
            return r
        new_future = res.acquire(x)
        if new_future.is_resolved:
            new_grant = new_future.value
            if not (x <= avail0):
                r.bad("resource_immediate_grant_needs_capacity", x, avail0)
        else:
            if x <= avail0:
                r.bad("resource_blocks_although_capacity_available", x, avail0)
            r.wit.add("acquire_blocks")
    elif op == 1:
        x = sym.int("amount", 1, 4)
        if x > C:
            return r
        new_grant = res.try_acquire(x)
        if (new_grant is not None) != (x <= avail0):
            r.bad("resource_try_acquire_iff_fits", x, avail0)
    else:
        if ngr == 0:
            return r
        gi = sym.choice("which_grant", ngr) if ngr > 1 else 0
        grants[gi].release()
        released = grants[gi].amount
        if op == 3:
            grants[gi].release()       # second release of the same grant must be a no-op
            r.wit.add("double_release")
    # ---- postconditions
    outstanding = 0
    for g in grants:
        if not g.released:
            outstanding = outstanding + g.amount
    if new_grant is not None:
        outstanding = outstanding + new_grant.amount
        if new_grant.amount != x:
            r.bad("resource_grant_amount", new_grant.amount, x)
    woken = 0
    seen_unwoken = False
    for (w, f) in waiters:
        if f.is_resolved:
            if seen_unwoken:
                r.bad("resource_wakes_waiters_in_arrival_order", [ww for ww, _ in waiters])
            g = f.value
            if not isinstance(g, Grant) or g.amount != w:
                r.bad("resource_waiter_gets_its_amount", w)
            outstanding = outstanding + w
            woken += 1
        else:
            seen_unwoken = True
    if woken:
        r.wit.add("waiter_woken")
    if woken > 1:
        r.wit.add("two_waiters_woken")
    if op < 2 and woken:
        r.bad("resource_acquire_must_not_wake", woken)
    if not (0 <= res.available <= C):
        r.bad("resource_available_within_capacity", res.available, C)
    if res.available + outstanding != C:
        r.bad("resource_held_plus_available_is_capacity", res.available, outstanding, C)
    if res.waiters != nw - woken + (1 if (op == 0 and new_grant is None) else 0):
        r.bad("resource_waiter_count", res.waiters)
    if res.waiters > 0:
        head = res._waiters[0]
        if not (head.amount > res.available) and not (op == 0 and new_grant is None and nw - woken == 0 and False):
            r.bad("resource_head_waiter_served_as_soon_as_capacity_allows", head.amount, res.available)
    r.obs = {"available": res.available, "waiters": res.waiters, "woken": woken}
    return r


HARNESSES = [
    H(name="c09_resource_step", fn=resource_step, shape="I", budget=lambda tier: 400.0,
      cubes=lambda tier: [{"op": c} for c in range(4)],
      require=lambda tier: ["acquire_blocks", "waiter_woken", "two_waiters_woken", "double_release"],
      functions=["Resource.acquire", "Resource.try_acquire", "Grant.release", "Resource._do_release", "Resource._wake_waiters"],
      bounds=lambda tier: {"capacity": "symbolic [1,4]", "outstanding grants": "<=2, symbolic amounts", "queued waiters": "<=2, symbolic amounts",
                           "operation": "acquire(x) | try_acquire(x) | release(g_i) | release(g_i) twice, x symbolic [1,4]",
                           "invariant": "0<=available; available+sum(grants)=capacity; head waiter amount > available"},
      outside=["float capacities/amounts", "more than 2 waiters / 2 outstanding grants in the pre-state (the step is uniform in them)"]),
]


# ------------------------------------------------------------------ sync primitives in the engine
from happysimulator.components.sync.barrier import Barrier
from happysimulator.components.sync.condition import Condition
from happysimulator.components.sync.mutex import Mutex
from happysimulator.components.sync.rwlock import RWLock
from happysimulator.components.sync.semaphore import Semaphore
from happysimulator.core.entity import Entity
from happysimulator.core.simulation import Simulation

from harness.common import Monitor, SpinDetected, mk_event

HOLDS = [1e-9, 3e-9]          # hold times (1 ns, 3 ns) -- strictly positive
HOLD_NS = [1, 3]
PRIMS = ["mutex", "semaphore", "rwlock", "barrier", "condition"]


class _Worker(Entity):
    def __init__(self, name, body):
        super().__init__(name)
        self.body = body

    def handle_event(self, event):
        return self.body(self)


def sync_scenario(sym, tier):
    """W worker processes with symbolic start times contend for one real primitive
    inside the real engine.  Hold times are strictly positive, so a blocked acquirer
    must see the clock advance to its predecessor's release."""
    r = Result()
    prim = PRIMS[sym.choice("prim", len(PRIMS))]
    W = 2 if tier == "quick" else 3
    starts = [sym.int(f"start{i}", 0, 3) for i in range(W)]
    holds = [sym.choice(f"hold{i}", 2) for i in range(W)]
    log = []           # (worker, what, ns)
    state = {"holders": 0, "readers": 0, "writers": 0, "amount": 0}
    ents = []

    if prim == "mutex":
        p = Mutex("m")

        def body(w):
            i = int(w.name[1:])
            log.append((i, "req", w.now.nanoseconds))
            yield from p.acquire(w.name)
            state["holders"] += 1
            if state["holders"] > 1:
                r.bad("mutex_at_most_one_holder", i)
            log.append((i, "got", w.now.nanoseconds))
            yield HOLDS[holds[i]]
            state["holders"] -= 1
            log.append((i, "rel", w.now.nanoseconds))
            return p.release()
        limit = 1
    elif prim == "semaphore":
        cap = 2
        p = Semaphore("s", cap)
        amts = [sym.int(f"amount{i}", 1, cap) for i in range(W)]

        def body(w):
            i = int(w.name[1:])
            log.append((i, "req", w.now.nanoseconds))
            yield from p.acquire(amts[i])
            state["amount"] = state["amount"] + amts[i]
            if state["amount"] > cap:
                r.bad("semaphore_never_over_capacity", i, state["amount"])
            # holders known to the harness are a subset of the permits handed out (a worker that
            # acquired without blocking registers one zero-delay step later), so <= not ==
            if p.available < 0 or p.available + state["amount"] > cap:
                r.bad("semaphore_held_plus_available_within_capacity", p.available, state["amount"])
            log.append((i, "got", w.now.nanoseconds))
            yield HOLDS[holds[i]]
            state["amount"] = state["amount"] - amts[i]
            log.append((i, "rel", w.now.nanoseconds))
            return p.release(amts[i])
    elif prim == "rwlock":
        p = RWLock("rw")
        writer = [sym.bool(f"writer{i}") for i in range(W)]

        def body(w):
            i = int(w.name[1:])
            log.append((i, "req", w.now.nanoseconds))
            if writer[i]:
                yield from p.acquire_write()
                state["writers"] += 1
            else:
                yield from p.acquire_read()
                state["readers"] += 1
            if state["writers"] > 1 or (state["writers"] and state["readers"]):
                r.bad("rwlock_writer_excludes_everyone", i, state["writers"], state["readers"])
            log.append((i, "got", w.now.nanoseconds))
            yield HOLDS[holds[i]]
            log.append((i, "rel", w.now.nanoseconds))
            if writer[i]:
                state["writers"] -= 1
                return p.release_write()
            state["readers"] -= 1
            return p.release_read()
    elif prim == "barrier":
        p = Barrier("b", W)

        def body(w):
            i = int(w.name[1:])
            log.append((i, "req", w.now.nanoseconds))
            yield from p.wait()
            log.append((i, "got", w.now.nanoseconds))
            log.append((i, "rel", w.now.nanoseconds))
            return None
    else:
        m = Mutex("m")
        p = Condition("c", m)
        flag = [False]

        def body(w):
            i = int(w.name[1:])
            log.append((i, "req", w.now.nanoseconds))
            yield from m.acquire(w.name)
            if i == 0:
                # waiter: waits until the flag is set by a later worker
                while not flag[0]:
                    yield from p.wait()
                log.append((i, "got", w.now.nanoseconds))
                log.append((i, "rel", w.now.nanoseconds))
                return m.release()
            yield HOLDS[holds[i]]
            flag[0] = True
            p.notify_all()
            log.append((i, "got", w.now.nanoseconds))
            log.append((i, "rel", w.now.nanoseconds))
            return m.release()

    ents = [_Worker(f"w{i}", body) for i in range(W)]
    prims = [p] + ([m] if prim == "condition" else [])
    sim = Simulation(entities=prims + ents)
    mon = Monitor(sim, cap=12 * W)
    sim.schedule([mk_event(starts[i], f"go{i}", ents[i]) for i in range(W)])
    try:
        sim.run()
    except SpinDetected:
        pass
    mon.judge(r, prim)
    got = {i: t for (i, what, t) in log if what == "got"}
    req = {i: t for (i, what, t) in log if what == "req"}
    rel = {i: t for (i, what, t) in log if what == "rel"}
    if not mon.spun:
        for i in range(W):
            if i not in got:
                r.bad("every_waiter_eventually_served", prim, i, log)
        if prim == "semaphore" and p.available != cap:
            r.bad("semaphore_no_leak_at_quiescence", p.available, cap)
        if prim == "mutex" and (p.is_locked or p.waiters):
            r.bad("mutex_free_at_quiescence", p.is_locked, p.waiters)
        if prim == "rwlock" and (p.is_write_locked or p.active_readers or p.waiters):
            r.bad("rwlock_free_at_quiescence", p.is_write_locked, p.active_readers)
        if any(got.get(i, 0) > req.get(i, 0) for i in range(W)):
            r.wit.add("a_worker_blocked")
        if prim == "mutex" and len(got) == W:
            # blocked acquirers are granted in arrival (request) order; requests are ordered by (time, creation)
            order_req = sorted(range(W), key=lambda i: (req[i], i))
            order_got = sorted(range(W), key=lambda i: (got[i], order_req.index(i)))
            if order_req != order_got:
                r.bad("mutex_grants_in_arrival_order", order_req, order_got)
            for a, b in zip(order_req, order_req[1:]):
                if got[b] > req[b] and got[b] != rel[a]:
                    r.bad("waiter_granted_at_predecessor_release", a, b, got[b], rel[a])
    else:
        r.wit.add("a_worker_blocked")
    r.obs = {"prim": prim, "log": log}
    return r


def sync_classify(clause, draws, obs):
    return None


HARNESSES.append(
    H(name="c09_sync_scenario", fn=sync_scenario, shape="S", budget=lambda tier: 400.0 if tier == "quick" else 1500.0,
      cubes=lambda tier: [{"prim": a, "hold0": b} for a in range(len(PRIMS)) for b in range(2)],
      require=lambda tier: ["a_worker_blocked"], classify=sync_classify,
      functions=["Mutex.acquire/release", "Semaphore.acquire/release/_wake_waiters", "RWLock.acquire_read/acquire_write/release_*/_wake_waiters",
                 "Barrier.wait/_break_barrier", "Condition.wait/notify_all", "ProcessContinuation.invoke", "SimFuture"],
      bounds=lambda tier: {"workers": 2 if tier == "quick" else 3, "start times": "symbolic ns [0,3]", "hold times": HOLD_NS,
                           "semaphore": "capacity 2, symbolic amounts", "rwlock": "symbolic reader/writer roles"},
      outside=["more than 3 competing processes", "acquire timeouts"]))


# ------------------------------------------------------------------ RWLock with a reader cap
def rwlock_cap(sym, tier):
    """Three readers on RWLock(max_readers=2): a reader queued on the cap is granted at the instant a
    slot frees (as soon as capacity allows), never later, and readers never exceed the cap."""
    r = Result()
    p = RWLock("rw", max_readers=2)
    W = 3
    starts = [sym.int(f"start{i}", 0, 3) for i in range(W)]
    holds = [sym.choice(f"hold{i}", 2) for i in range(W)]
    log = []
    active = [0]

    def body(w):
        i = int(w.name[1:])
        log.append((i, "req", w.now.nanoseconds))
        yield from p.acquire_read()
        active[0] += 1
        if active[0] > 2:
            r.bad("rwlock_readers_never_exceed_cap", i, active[0])
        log.append((i, "got", w.now.nanoseconds))
        yield [1e-9, 5e-9][holds[i]]
        active[0] -= 1
        log.append((i, "rel", w.now.nanoseconds))
        return p.release_read()

    ents = [_Worker(f"w{i}", body) for i in range(W)]
    sim = Simulation(entities=[p] + ents)
    mon = Monitor(sim, cap=40)
    sim.schedule([mk_event(starts[i], f"go{i}", ents[i]) for i in range(W)])
    try:
        sim.run()
    except SpinDetected:
        pass
    mon.judge(r, "rwlock_cap")
    got = {i: t for (i, what, t) in log if what == "got"}
    req = {i: t for (i, what, t) in log if what == "req"}
    rel = sorted(t for (i, what, t) in log if what == "rel")
    for i in range(W):
        if i not in got:
            r.bad("every_waiter_eventually_served", "rwlock_cap", i, log)
        elif got[i] > req[i]:
            r.wit.add("reader_blocked_on_cap")
            # it must be granted at the first release at or after its request (a slot is free from then on)
            first_rel = [t for t in rel if t >= req[i]]
            if not first_rel or got[i] != first_rel[0]:
                r.bad("blocked_reader_granted_as_soon_as_a_slot_frees", {"worker": i, "requested": req[i], "granted": got[i], "releases": rel})
    r.obs = {"log": log}
    return r


HARNESSES.append(
    H(name="c09_rwlock_cap", fn=rwlock_cap, shape="S", budget=lambda tier: 900.0,
      cubes=lambda tier: [{"hold0": a, "hold1": b} for a in range(2) for b in range(2)],
      require=lambda tier: ["reader_blocked_on_cap"],
      functions=["RWLock.acquire_read/release_read/_wake_waiters/try_acquire_read"],
      bounds=lambda tier: {"readers": 3, "max_readers": 2, "start times": "symbolic ns [0,3]", "hold ns": [1, 5]}))


# ------------------------------------------------------------------ PreemptibleResource: acquire / release scripts
def preemptible_script(sym, tier):
    """acquire(amount, priority, preempt) / release script on a real PreemptibleResource: outstanding
    amount never exceeds capacity, held + available == capacity, available stays in [0, capacity],
    only strictly lower-priority holders are preempted, a grant is given at most once, and when
    nothing is held any more every waiter has been served."""
    from happysimulator.components.industrial.preemptible_resource import PreemptibleResource
    r = Result()
    C = 2 + sym.choice("capacity_minus_2", 2)
    res = PreemptibleResource("pr", C)
    n = 4 if tier == "quick" else 5
    futs = []            # (future, amount, priority)
    script = []
    preempted_seen = []

    def live():
        out = []
        for (f, a, p) in futs:
            if f.is_resolved:
                g = f.value
                if not g.released:
                    out.append((g, a, p))
        return out

    for s_ in range(n):
        op = sym.choice(f"op{s_}", 2) if s_ > 0 else 0
        if op == 0:
            amt = 1 + sym.choice(f"amount{s_}_minus_1", 2)
            pri = sym.int(f"priority{s_}", 0, 2)
            pre = sym.bool(f"preempt{s_}")
            before = [(g, p) for (g, a, p) in live()]
            f = res.acquire(amount=amt, priority=pri, preempt=pre)
            futs.append((f, amt, pri))
            script.append(("acquire", amt, pri, pre))
            for (g, p) in before:
                if g.preempted:
                    r.wit.add("preemption")
                    if not pre or not (p > pri):
                        r.bad("only_strictly_lower_priority_holders_are_preempted", {"script": script, "victim_priority": p})
        else:
            lv = live()
            if lv:
                i = sym.choice(f"which{s_}", len(lv)) if len(lv) > 1 else 0
                lv[i][0].release()
                script.append(("release", lv[i][1], lv[i][2]))
        held = sum(a for (g, a, p) in live())
        if held > C:
            r.bad("outstanding_amount_never_exceeds_capacity", {"script": script, "held": held, "capacity": C})
        if res.available < 0 or res.available > C:
            r.bad("available_stays_within_zero_and_capacity", {"script": script, "available": res.available})
        if held + res.available != C:
            r.bad("held_plus_available_equals_capacity", {"script": script, "held": held, "available": res.available, "capacity": C})
        waiting = [(a, p) for (f, a, p) in futs if not f.is_resolved]
        if waiting:
            r.wit.add("someone_waits")
            best = min(waiting, key=lambda w: w[1])       # highest-priority waiter (FIFO among equals is the heap's business)
            firsts = [w for w in waiting if w[1] == best[1]]
            if res.available >= firsts[0][0]:
                r.bad("waiter_served_as_soon_as_capacity_allows", {"script": script, "available": res.available, "waiting": waiting})
    # drain: release everything that is held; then nobody may be left waiting
    for _ in range(2 * n):
        lv = live()
        if not lv:
            break
        lv[0][0].release()
    if any(not f.is_resolved for (f, a, p) in futs):
        r.bad("every_waiter_is_eventually_served", {"script": script})
    if res.available != C:
        r.bad("all_capacity_returns_after_every_release", {"script": script, "available": res.available})
    r.obs = {"script": script}
    return r


HARNESSES.append(
    H(name="c09_preemptible_script", fn=preemptible_script, shape="S", budget=lambda tier: 900.0 if tier == "quick" else 3000.0,
      cubes=lambda tier: ([{"capacity_minus_2": c, "amount0_minus_1": a, "op1": o} for c in range(2) for a in range(2) for o in range(2)] if tier == "quick" else
                          [{"capacity_minus_2": c, "amount0_minus_1": a, "op1": o, "preempt0": p, "op2": o2, "op3": o3}
                           for c in range(2) for a in range(2) for o in range(2) for p in range(2) for o2 in range(2) for o3 in range(2)]),
      require=lambda tier: ["preemption", "someone_waits"], classify=sync_classify,
      functions=["PreemptibleResource.acquire/_try_preempt/_grant_immediate/_do_release/_wake_waiters", "PreemptibleGrant.release/_do_preempt"],
      bounds=lambda tier: {"capacity": [2, 3], "ops": 4 if tier == "quick" else 5, "amounts": [1, 2], "priorities": "symbolic 0..2", "preempt flag": "symbolic"},
      outside=["on_preempt callbacks that re-enter the resource"]))


# ------------------------------------------------------------------ concurrency models: one step from an arbitrary state
def concurrency_step(sym, tier):
    """Fixed / Dynamic / Weighted concurrency model in an arbitrary state (symbolic limit and amount
    in use; a Dynamic model may be over its limit after a scale-down), one operation with symbolic
    arguments: acquire succeeds iff has_capacity said so and never takes the amount in use above the
    limit; a refused acquire changes nothing; release gives back exactly what is released; available
    and has_capacity agree with limit - in use; set_limit clamps to [min, max] and admits nothing."""
    from happysimulator.components.server.concurrency import DynamicConcurrency, FixedConcurrency, WeightedConcurrency
    r = Result()
    kind = sym.choice("model", 3)
    L = sym.int("limit", 1, 4)
    used = sym.int("in_use", 0, 5)
    if kind == 0:
        m = FixedConcurrency(L)
        if used > L:
            return r
        m._active = used
    elif kind == 1:
        m = DynamicConcurrency(initial=L, min_limit=1, max_limit=4)
        m._active = used                       # may exceed the limit (after a scale-down)
    else:
        m = WeightedConcurrency(L)
        if used > L:
            return r
        m._used_capacity = used
    w = sym.int("weight", 1, 3) if kind == 2 else 1
    op = sym.choice("op", 3 if kind == 1 else 2)
    if m.available != (L - used if L - used > 0 else 0):
        r.bad("available_is_limit_minus_in_use", {"model": kind, "limit": L, "in_use": used, "available": m.available})
    could = m.has_capacity(w)
    if could != (used + w <= L):
        r.bad("has_capacity_iff_it_fits", {"model": kind, "limit": L, "in_use": used, "weight": w, "has_capacity": could})
    if op == 0:
        ok = m.acquire(w)
        if ok != could:
            r.bad("acquire_succeeds_iff_has_capacity", {"model": kind, "limit": L, "in_use": used, "weight": w})
        if ok:
            r.wit.add("admitted")
            if m.active != used + w or m.active > m.limit:
                r.bad("outstanding_amount_never_exceeds_capacity", {"model": kind, "limit": L, "in_use_before": used, "after": m.active})
        else:
            r.wit.add("refused")
            if m.active != used:
                r.bad("refused_acquire_changes_nothing", {"model": kind, "before": used, "after": m.active})
    elif op == 1:
        if w > used:
            return r                           # a caller releases only what it holds
        m.release(w)
        if m.active != used - w:
            r.bad("release_gives_back_exactly_what_is_released", {"model": kind, "before": used, "weight": w, "after": m.active})
        if m.active < 0:
            r.bad("in_use_never_negative", m.active)
    else:
        n = sym.int("new_limit", 0, 6)
        m.set_limit(n)
        want = 1 if n < 1 else (4 if n > 4 else n)
        if m.limit != want or m.active != used:
            r.bad("set_limit_clamps_and_admits_nothing", {"requested": n, "limit": m.limit, "in_use_before": used, "after": m.active})
        if want < used:
            r.wit.add("scaled_below_in_use")
            if m.has_capacity() or m.acquire():
                r.bad("over_limit_model_admits_nothing", {"limit": m.limit, "in_use": used})
    r.obs = {"model": kind, "limit": L, "in_use": used}
    return r


HARNESSES.append(
    H(name="c09_concurrency_step", fn=concurrency_step, shape="I", budget=lambda tier: 400.0,
      cubes=lambda tier: [{"model": k} for k in range(3)],
      require=lambda tier: ["admitted", "refused", "scaled_below_in_use"], classify=sync_classify,
      functions=["FixedConcurrency.*", "DynamicConcurrency.*", "WeightedConcurrency.*"],
      bounds=lambda tier: {"limit": "symbolic 1..4", "in use": "symbolic 0..5 (Dynamic: may exceed the limit)", "weight": "symbolic 1..3 (Weighted)", "new limit": "symbolic 0..6, clamped to [1,4]"},
      assumptions=["0 <= in use <= limit for Fixed and Weighted models (set directly on the object)"]))


# ------------------------------------------------------------------ Bulkhead in the engine
def bulkhead(sym, tier):
    """4 requests with symbolic arrival instants through a real Bulkhead (max_concurrent 1-2, wait queue
    0-2, optional 2 ns wait timeout) into a worker that holds each for 3 ns: never more than
    max_concurrent in service, every request ends as exactly one of completed / rejected / timed out,
    waiting requests are admitted in arrival order, no permit is free while somebody waits."""
    from happysimulator.components.resilience.bulkhead import Bulkhead
    from happysimulator.core.entity import Entity
    from happysimulator.core.simulation import Simulation
    from harness.common import Monitor, SpinDetected, mk_event
    r = Result()
    k = 1 + sym.choice("max_concurrent_minus_1", 2)
    q = sym.choice("max_wait_queue", 3)
    timeout = [None, 2e-9][sym.choice("wait_timeout", 2)]
    m = 4
    started, finished = [], []
    in_service = [0]
    problems = []

    class Worker(Entity):
        def handle_event(self, event):
            lbl = event.context["metadata"]["label"]
            in_service[0] += 1
            if in_service[0] > k:
                problems.append(("more_in_service_than_max_concurrent", lbl, in_service[0]))
            started.append((lbl, self.now.nanoseconds))
            yield 3e-9
            in_service[0] -= 1
            finished.append((lbl, self.now.nanoseconds))

    wk = Worker("worker")
    bh = Bulkhead("bh", target=wk, max_concurrent=k, max_wait_queue=q, max_wait_time=timeout)
    sim = Simulation(entities=[bh, wk])
    mon = Monitor(sim, cap=60)
    ts = [sym.int(f"arrive{i}", 0, 4) for i in range(m)]

    def on_advance(t):
        if bh.queue_depth > 0 and bh.active_count < k:
            problems.append(("waiting_while_a_permit_is_free", t.nanoseconds, bh.queue_depth, bh.active_count))

    def on_event(e):
        if bh.active_count > k:
            problems.append(("active_count_above_max_concurrent", bh.active_count))
        if bh.queue_depth > q:
            problems.append(("wait_queue_above_its_limit", bh.queue_depth))

    sim.control.on_time_advance(on_advance)
    sim.control.on_event(on_event)
    sim.schedule([mk_event(ts[i], f"req{i}", bh) for i in range(m)])
    try:
        sim.run()
    except SpinDetected:
        pass
    mon.judge(r, "bulkhead")
    for p_ in problems[:1]:
        r.bad(p_[0], {"detail": p_[1:], "arrivals_ns": ts, "max_concurrent": k, "queue": q, "timeout": timeout})
    st = bh.stats
    done = [l for (l, t) in finished]
    if len(set(done)) != len(done):
        r.bad("request_served_at_most_once", done)
    if not mon.spun:
        if len(done) + st.rejected_requests + st.timed_out_requests != m:
            r.bad("every_request_completed_rejected_or_timed_out", {"completed": done, "rejected": st.rejected_requests, "timed_out": st.timed_out_requests,
                                                                     "arrivals_ns": ts, "max_concurrent": k, "queue": q, "timeout": timeout})
        if bh.active_count != 0 or bh.queue_depth != 0 or in_service[0] != 0:
            r.bad("bulkhead_drains_at_quiescence", bh.active_count, bh.queue_depth)
    # admission order: among requests that were served, start order follows (arrival instant, index)
    order = [int(l[3:]) for (l, t) in started]
    for a in range(len(order)):
        for b in range(a + 1, len(order)):
            if ts[order[a]] > ts[order[b]]:
                r.bad("requests_admitted_in_arrival_order", {"started": started, "arrivals_ns": ts})
    if st.rejected_requests:
        r.wit.add("rejected")
    if st.queued_requests:
        r.wit.add("queued")
    if st.timed_out_requests:
        r.wit.add("timed_out")
    r.obs = {"started": started, "rejected": st.rejected_requests, "timed_out": st.timed_out_requests}
    return r


HARNESSES.append(
    H(name="c09_bulkhead", fn=bulkhead, shape="S", budget=lambda tier: 900.0 if tier == "quick" else 3000.0,
      cubes=lambda tier: [{"max_concurrent_minus_1": a, "max_wait_queue": b, "wait_timeout": c} for a in range(2) for b in range(3) for c in range(2)],
      require=lambda tier: ["rejected", "queued", "timed_out"], classify=sync_classify,
      functions=["Bulkhead.handle_event/_forward_request/_enqueue_request/_handle_response/_handle_timeout/_try_process_queued"],
      bounds=lambda tier: {"requests": 4, "arrivals": "symbolic ns [0,4]", "service ns": 3, "max_concurrent": [1, 2], "wait queue": [0, 1, 2], "wait timeout": [None, "2 ns"]},
      outside=[]))


# ------------------------------------------------------------------ ThreadPool in the engine
def thread_pool(sym, tier):
    """4 tasks with symbolic arrival instants and per-task processing times (1 ns or 3 ns, carried in the
    task's metadata) into a real ThreadPool (1-2 workers, bounded FIFO queue): never more active workers
    than the pool has, the pool never has to turn a fetched task away, no task waits while a worker is
    idle, every accepted task completes exactly once, queue overflow is counted."""
    from happysimulator.components.server.thread_pool import ThreadPool
    from happysimulator.core.event import Event
    from happysimulator.core.simulation import Simulation
    from happysimulator.core.temporal import Instant
    from harness.common import Monitor, SpinDetected
    r = Result()
    k = 1 + sym.choice("workers_minus_1", 2)
    qcap = sym.int("queue_capacity", 1, 3)
    pool = ThreadPool("pool", num_workers=k, queue_capacity=qcap)
    m = 3 if tier == "quick" else 4
    ts = [sym.int(f"arrive{i}", 0, 4) for i in range(m)]
    pt = [[1e-9, 3e-9][sym.choice(f"time{i}", 2)] for i in range(m)]
    sim = Simulation(entities=[pool])
    mon = Monitor(sim, cap=60)
    problems = []

    def on_advance(t):
        if pool.queued_tasks > 0 and pool.has_capacity():
            problems.append(("no_task_waits_while_a_worker_is_idle", t.nanoseconds, pool.queued_tasks, pool.active_workers))

    def on_event(e):
        if pool.active_workers > k:
            problems.append(("active_workers_never_exceed_the_pool", pool.active_workers))

    sim.control.on_time_advance(on_advance)
    sim.control.on_event(on_event)
    sim.schedule([Event(time=Instant(ts[i]), event_type=f"task{i}", target=pool, context={"metadata": {"processing_time": pt[i], "label": f"task{i}"}}) for i in range(m)])
    try:
        sim.run()
    except SpinDetected:
        pass
    mon.judge(r, "thread_pool")
    for p_ in problems[:1]:
        r.bad(p_[0], {"detail": p_[1:], "arrivals_ns": ts, "workers": k, "queue": qcap})
    st = pool.stats
    if st.tasks_rejected:
        r.bad("driver_fetches_work_only_for_a_free_worker_slot", {"rejected": st.tasks_rejected, "arrivals_ns": ts, "workers": k, "queue": qcap})
    if not mon.spun:
        if st.tasks_completed + pool.stats_dropped + st.tasks_rejected != m:
            r.bad("every_task_completed_or_counted_as_dropped", {"completed": st.tasks_completed, "dropped": pool.stats_dropped, "offered": m, "arrivals_ns": ts})
        if pool.queued_tasks != 0 or pool.active_workers != 0:
            r.bad("pool_drains_at_quiescence", pool.queued_tasks, pool.active_workers)
    if pool.stats_dropped:
        r.wit.add("queue_overflow")
    if len(set(ts)) < m:
        r.wit.add("simultaneous_arrivals")
    r.obs = {"completed": st.tasks_completed, "dropped": pool.stats_dropped}
    return r


HARNESSES.append(
    H(name="c09_thread_pool", fn=thread_pool, shape="S", budget=lambda tier: 900.0 if tier == "quick" else 3000.0,
      cubes=lambda tier: [{"workers_minus_1": a, "time0": b, "time1": c} for a in range(2) for b in range(2) for c in range(2)],
      require=lambda tier: ["queue_overflow", "simultaneous_arrivals"], classify=sync_classify,
      functions=["ThreadPool.handle_queued_event/has_capacity", "QueuedResource.handle_event", "QueueDriver.*", "FixedConcurrency.*"],
      bounds=lambda tier: {"tasks": 3 if tier == "quick" else 4, "arrivals": "symbolic ns [0,4]", "processing ns": [1, 3], "workers": [1, 2], "queue capacity": "symbolic [1,3]"},
      outside=[]))


# ------------------------------------------------------------------ ConnectionPool in the engine
def connection_pool(sym, tier):
    """3 clients acquire a connection from a real ConnectionPool (max 1-2 connections, connection set-up
    latency 0 or 2 ms, wait timeout 1 s) at symbolic whole milliseconds, hold it 3 ms and release it:
    the pool never owns more connections than max_connections (also while one is being set up), no
    connection has two holders, everybody is served, and a waiter resumes at the instant of the release
    that serves it."""
    from happysimulator.components.client.connection_pool import ConnectionPool
    from happysimulator.core.entity import Entity
    from happysimulator.core.simulation import Simulation
    from happysimulator.distributions.constant import ConstantLatency
    from harness.common import Monitor, SpinDetected, mk_event
    r = Result()
    mx = 1 + sym.choice("max_connections_minus_1", 2)
    lat = [0.0, 0.002][sym.choice("connection_latency", 2)]
    MS = 1_000_000
    holders = {}            # connection id -> client currently holding it
    log = []                # (client, 'got'/'rel', ns, conn id)
    problems = []

    class Target(Entity):
        def handle_event(self, event):
            return None

    tgt = Target("db")
    pool = ConnectionPool("pool", target=tgt, max_connections=mx, connection_timeout=1.0, idle_timeout=60.0, connection_latency=ConstantLatency(lat))

    class Client(Entity):
        def handle_event(self, event):
            conn = yield from pool.acquire()
            if conn.id in holders:
                problems.append(("connection_has_one_holder", conn.id, holders[conn.id], self.name))
            holders[conn.id] = self.name
            log.append((self.name, "got", self.now.nanoseconds, conn.id))
            yield 0.003
            del holders[conn.id]
            log.append((self.name, "rel", self.now.nanoseconds, conn.id))
            return pool.release(conn)

    cl = [Client(f"c{i}") for i in range(3)]
    ts = [sym.int(f"arrive{i}", 0, 4) for i in range(3)]
    sim = Simulation(entities=[pool, tgt] + cl, end_time=Instant(3_000 * MS) if False else None)
    mon = Monitor(sim, cap=80)

    def on_event(e):
        if pool.total_connections > mx:
            problems.append(("pool_never_owns_more_than_max_connections", pool.total_connections, mx))
        if pool.active_connections > mx:
            problems.append(("active_connections_never_exceed_max", pool.active_connections, mx))

    sim.control.on_event(on_event)
    sim.schedule([mk_event(ts[i] * MS, f"go{i}", cl[i]) for i in range(3)])
    try:
        sim.run()
    except SpinDetected:
        pass
    mon.judge(r, "connection_pool")
    for p_ in problems[:1]:
        r.bad(p_[0], {"detail": p_[1:], "arrivals_ms": ts, "max_connections": mx, "connection_latency_s": lat})
    served = [x for x in log if x[1] == "got"]
    if not mon.spun and len(served) != 3:
        r.bad("every_waiter_is_eventually_served", {"served": served, "arrivals_ms": ts, "max_connections": mx})
    # a client that had to wait (pool exhausted) resumes at the instant of some release
    rel_times = [x[2] for x in log if x[1] == "rel"]
    for (c, what, t, cid) in served:
        i = int(c[1:])
        immediate = t == ts[i] * MS or t == ts[i] * MS + int(lat * 1e9)
        if not immediate:
            r.wit.add("somebody_waited")
            if t not in rel_times:
                r.bad("waiter_resumes_at_the_release_that_serves_it", {"client": c, "got_at_ns": t, "releases_ns": rel_times, "arrivals_ms": ts,
                                                                        "max_connections": mx, "connection_latency_s": lat})
    if lat > 0 and len(set(ts)) < 3:
        r.wit.add("arrival_during_connection_set_up")
    r.obs = {"log": log}
    return r


def pool_classify(clause, draws, obs):
    """Known finding: a client waiting for a connection polls every min(0.1 s, timeout/10) instead of being woken,
    so it resumes at its next poll tick after the release.  Recognised only when the resume instant lies after a
    release and on the waiter's own 0.1 s polling grid."""
    import json
    if not clause.startswith("waiter_resumes_at_the_release_that_serves_it"):
        return None
    try:
        d = json.loads(clause.split(": ", 1)[1])
    except Exception:
        return None
    i = int(d["client"][1:])
    start = d["arrivals_ms"][i] * 1_000_000
    t = d["got_at_ns"]
    if (t - start) % 100_000_000 == 0 and any(rt <= t for rt in d["releases_ns"]):
        return "connection-pool-waiters-poll-instead-of-being-woken"
    return None


HARNESSES.append(
    H(name="c09_connection_pool", fn=connection_pool, shape="S", budget=lambda tier: 900.0,
      cubes=lambda tier: [{"max_connections_minus_1": a, "connection_latency": b} for a in range(2) for b in range(2)],
      require=lambda tier: ["somebody_waited", "arrival_during_connection_set_up"], classify=pool_classify,
      functions=["ConnectionPool.acquire/release/_create_connection/_activate_connection/_try_get_idle_connection"],
      bounds=lambda tier: {"clients": 3, "arrivals": "symbolic whole ms [0,4]", "hold": "3 ms", "max connections": [1, 2], "connection set-up latency": [0.0, 0.002], "wait timeout": "1 s"},
      outside=["idle-timeout closing", "warm-up", "acquire timeouts"]))
