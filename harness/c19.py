"""C19 — messaging delivers until acknowledged, to the right consumers, in offset order."""
from __future__ import annotations

from happysimulator.components.messaging.dlq import DeadLetterQueue
from happysimulator.components.messaging.message_queue import MessageQueue
from happysimulator.components.streaming.consumer_group import ConsumerGroup, RangeAssignment, RoundRobinAssignment, StickyAssignment
from happysimulator.components.streaming.event_log import EventLog
from happysimulator.core.entity import Entity
from happysimulator.core.event import Event
from happysimulator.core.simulation import Simulation
from happysimulator.core.temporal import Instant

from harness.common import Monitor, SpinDetected, mk_event
from vf.harness import H
from vf.sym import Result

LAT = [(0.0, 0), (0.001, 1_000_000)]
MS = 1_000_000


class Consumer(Entity):
    """On each delivery: ack / reject(requeue) / reject(no requeue) / ignore, per a symbolic script."""

    def __init__(self, name, queue, script, log):
        super().__init__(name)
        self.queue, self.script, self.log = queue, script, log
        self.n = 0
        self.held = []
        self.late_acked = []

    def handle_event(self, event):
        mid = event.context["message_id"]
        label = event.context["payload"].context["metadata"]["label"]
        act = self.script[self.n] if self.n < len(self.script) else 0
        self.n += 1
        self.log.append((label, event.context["delivery_count"], self.now.nanoseconds, event.time.nanoseconds, act, self.name))
        if act == 0:
            self.queue.acknowledge(mid)
        elif act == 1:
            self.queue.reject(mid, requeue=True)
        elif act == 2:
            self.queue.reject(mid, requeue=False)
        else:
            self.held.append((mid, label))          # no reaction now; may be acknowledged late
        return None


class Driver(Entity):
    def __init__(self, name, queue):
        super().__init__(name)
        self.queue = queue
        self.ids = {}

    def handle_event(self, event):
        label = event.context["metadata"]["label"]
        if label.startswith("pub"):
            def gen():
                payload = mk_event(self.now.nanoseconds, label, self)
                mid = yield from self.queue.publish(payload)
                self.ids[label] = mid
            return gen()
        if label.startswith("poll"):
            return [Event(time=self.now, event_type="poll", target=self.queue)]
        if label == "visibility_timeout":
            # the application notices unacknowledged deliveries and asks for redelivery
            out = []
            for mid in list(self.queue._in_flight):
                ev = self.queue.schedule_redelivery(mid)
                if ev is not None:
                    out.append(ev)
            return out
        if label == "late_ack":
            for (mid, lab) in self.consumer.held:
                self.queue.acknowledge(mid)
                self.consumer.late_acked.append((lab, self.now.nanoseconds))
            self.consumer.held = []
        return None


def message_queue(sym, tier):
    r = Result()
    lat_s, lat_ns = LAT[sym.choice("delivery_latency", 2)]
    maxr = 1 + sym.choice("max_redeliveries_minus_1", 2)
    dlq = DeadLetterQueue("dlq")
    q = MessageQueue("q", delivery_latency=lat_s, redelivery_delay=0.01, max_redeliveries=maxr, dead_letter_queue=dlq)
    log = []
    npolls = 3 if tier == "quick" else 4
    script = [sym.choice(f"action{i}", 4) for i in range(npolls)]
    c1 = Consumer("c1", q, script, log)
    q.subscribe(c1)
    drv = Driver("drv", q)
    drv.consumer = c1
    sim = Simulation(entities=[q, dlq, c1, drv])
    mon = Monitor(sim, cap=60)
    t_pub = [0, sym.int("pub1_at_ms", 0, 3) * MS]
    evs = [mk_event(t_pub[i], f"pub{i}", drv) for i in range(2)]
    tp = 0
    polls = []
    for i in range(npolls):
        tp = tp + sym.int(f"poll{i}_gap_ms", 1, 3) * MS
        polls.append(tp)
        evs.append(mk_event(tp, f"poll{i}", drv))
    if sym.bool("visibility_timeout_and_late_ack"):
        vt = tp + 1 * MS
        evs.append(mk_event(vt, "visibility_timeout", drv))
        evs.append(mk_event(vt + sym.pick("late_ack_gap_ms", [1, 9, 11, 14]) * MS, "late_ack", drv))
        r.wit.add("timeout_then_late_ack")
    evs.append(mk_event(60 * MS, "keepalive", drv))
    sim.schedule(evs)
    try:
        sim.run()
    except SpinDetected:
        pass
    mon.judge(r, "message_queue")
    # deliveries reach the consumer at the delivery instant (poll instant + latency)
    for (label, cnt, now_ns, ev_ns, act, cname) in log:
        if now_ns != ev_ns:
            r.bad("delivery_event_stamped_with_delivery_instant", label, now_ns, ev_ns)
    started = q.stats.messages_delivered + q.stats.messages_redelivered
    if len(log) != started and not mon.stale:
        r.bad("every_started_delivery_reaches_a_consumer", {"started": started, "received": len(log)})
    # accounting: published = pending + in flight + acknowledged + dead-lettered (+ rejected without DLQ: none here)
    st = q.stats
    # a message acknowledged while it sat in the pending list (after schedule_redelivery) leaves a stale id there
    live_pending = len({m_ for m_ in q._pending_queue if m_ in q._messages and m_ not in q._in_flight})
    total = live_pending + q.in_flight_count + st.messages_acknowledged + dlq.message_count
    if total != st.messages_published:
        r.bad("every_published_message_stays_accounted_for", {"published": st.messages_published, "pending": live_pending, "in_flight": q.in_flight_count,
                                                              "acked": st.messages_acknowledged, "dead_lettered": dlq.message_count})
    acked = set()
    firsts = []
    counts = {}
    late = dict(c1.late_acked)
    for (label, cnt, now_ns, ev_ns, act, cname) in log:
        if label in acked or (label in late and now_ns > late[label]):
            r.bad("nothing_delivered_after_acknowledgement", {"label": label, "delivered_at_ns": now_ns, "acked_late_at_ns": late.get(label), "log": [list(x) for x in log]})
        if cnt == 1:
            firsts.append(label)
        counts[label] = counts.get(label, 0) + 1
        if act == 0:
            acked.add(label)
    pub_order = [f"pub{i}" for i in sorted(range(2), key=lambda i: (t_pub[i], i))]
    if firsts != [x for x in pub_order if x in firsts]:
        r.bad("first_deliveries_follow_publish_order", firsts, pub_order)
    for label, c in counts.items():
        if c > maxr and label not in acked:
            pass
    dl_labels = [m.payload.context["metadata"]["label"] for m in dlq.messages]
    for (label, cnt, now_ns, ev_ns, act, cname) in log:
        if act in (1, 2) and (act == 2 or cnt >= maxr) and label not in dl_labels and label not in acked and label not in late:
            r.bad("redelivery_limit_moves_message_to_dlq", {"label": label, "delivery_count": cnt, "max": maxr, "dlq": dl_labels})
    if dl_labels:
        r.wit.add("dead_lettered")
    if any(cnt > 1 for (_l, cnt, *_x) in log):
        r.wit.add("redelivered")
    if lat_ns:
        r.wit.add("non_zero_delivery_latency")
    r.obs = {"log": [list(x) for x in log], "dlq": dl_labels}
    return r


def mq_classify(clause, draws, obs):
    return None


STRATS = ["range", "round_robin", "sticky"]


def assignment(sym, tier):
    """join/leave script on a real ConsumerGroup over a real EventLog (engine run, one membership change
    at a time): after every rebalance each partition has exactly one owner among the current members,
    the generation increases, and committed offsets never move backwards under symbolic commits."""
    r = Result()
    si = sym.choice("strategy", 3)
    strat = [RangeAssignment(), RoundRobinAssignment(), StickyAssignment()][si]
    nparts = 2 + sym.choice("partitions_minus_2", 3)
    elog = EventLog("log", num_partitions=nparts)
    grp = ConsumerGroup("grp", elog, assignment_strategy=strat, rebalance_delay=0.001)
    names = ["ca", "cb", "cc"]
    n = 4 if tier == "quick" else 5
    seen = []
    problems = []

    class Member(Entity):
        def handle_event(self, event):
            return None

    members = {nm: Member(nm) for nm in names}

    class Script(Entity):
        def handle_event(self_, event):
            present = set()
            gen_no = grp.generation
            for s in range(n):
                nm = names[sym.choice(f"who{s}", 3)]
                if nm in present:
                    yield from grp.leave(nm)
                    present.discard(nm)
                else:
                    yield from grp.join(nm, members[nm])
                    present.add(nm)
                asg = grp.assignments
                owners = {}
                for c_, ps in asg.items():
                    for p in ps:
                        owners.setdefault(p, []).append(c_)
                seen.append((sorted(present), {k: list(v) for k, v in asg.items()}))
                if present:
                    for p in range(nparts):
                        if len(owners.get(p, [])) != 1:
                            problems.append(("each_partition_has_exactly_one_owner", sorted(present), asg))
                    if not set(asg) <= present:
                        problems.append(("partitions_owned_only_by_current_members", sorted(present), asg))
                if grp.generation <= gen_no:
                    problems.append(("generation_increases_on_rebalance", gen_no, grp.generation))
                gen_no = grp.generation
            # commits: a lower offset must not move the committed position backwards
            if present:
                nm = sorted(present)[0]
                o1, o2 = sym.int("commit1", 0, 5), sym.int("commit2", 0, 5)
                yield from grp.commit(nm, {0: o1})
                yield 0.001
                yield from grp.commit(nm, {0: o2})
                yield 0.001
                got = grp._committed_offsets.get(nm, {}).get(0)
                want = o1 if o1 >= o2 else o2
                if got != want:
                    problems.append(("committed_offsets_never_move_backwards", [o1, o2], got))

    scr = Script("script")
    sim = Simulation(entities=[elog, grp, scr] + list(members.values()))
    mon = Monitor(sim, cap=60)
    sim.schedule([mk_event(0, "go", scr)])
    try:
        sim.run()
    except SpinDetected:
        pass
    mon.judge(r, "consumer_group")
    for p in problems[:2]:
        r.bad(p[0], *p[1:])
    if any(len(pr) >= 2 for pr, _a in seen):
        r.wit.add("two_members")
    if len(seen) == n:
        r.wit.add("script_completed")
    r.obs = {"strategy": STRATS[si], "partitions": nparts, "seen": seen}
    return r


def asg_classify(clause, draws, obs):
    return None


def assign_sequences(sym, tier):
    """The assignment strategies alone, over an arbitrary sequence of member sets (any subset of three
    names per generation, so several members may join or leave in one rebalance) and partition counts:
    every generation gives each partition exactly one owner among the current members; the sticky
    strategy moves no partition between two members that are both still present."""
    r = Result()
    si = sym.choice("strategy", 3)
    strat = [RangeAssignment(), RoundRobinAssignment(), StickyAssignment()][si]
    nparts = 1 + sym.choice("partitions_minus_1", 4)
    parts = list(range(nparts))
    names = ["ca", "cb", "cc"]
    G = 4 if tier == "quick" else 5
    prev = {}
    hist = []
    for g in range(G):
        mask = sym.choice(f"members{g}", 8)
        cur = [nm for i, nm in enumerate(names) if (mask >> i) & 1]
        asg = strat.assign(list(parts), list(reversed(cur)) if g % 2 else list(cur))
        hist.append((cur, {k: list(v) for k, v in asg.items()}))
        owners = {}
        for c_, ps in asg.items():
            for p_ in ps:
                owners.setdefault(p_, []).append(c_)
        if cur:
            for p_ in parts:
                if len(owners.get(p_, [])) != 1:
                    r.bad("each_partition_has_exactly_one_owner", {"history": hist})
                    break
            if not set(asg) <= set(cur):
                r.bad("partitions_owned_only_by_current_members", {"history": hist})
            if any(p_ not in parts for p_ in owners):
                r.bad("only_existing_partitions_assigned", {"history": hist})
        elif any(asg.values()):
            r.bad("no_members_no_assignment", {"history": hist})
        if si == 2 and prev and cur:
            for c_, ps in prev.items():
                if c_ in cur:
                    for p_ in ps:
                        if owners.get(p_) and owners[p_] != [c_] and owners[p_][0] in prev:
                            r.bad("sticky_keeps_partitions_of_members_that_stay", {"history": hist})
        if len(cur) >= 2 and prev and set(prev) - set(cur) and len(set(cur) & set(prev)) >= 1:
            r.wit.add("member_left_while_another_stayed")
        if prev and set(cur) - set(prev):
            r.wit.add("member_joined_or_rejoined")
        prev = {k: list(v) for k, v in asg.items()} if cur else {}
    r.obs = {"history": hist}
    return r



# ------------------------------------------------------------------ EventLog: offsets and reads
class _KeyShard:
    """A sharding strategy with a known key -> partition map (HashSharding goes through a C-level hash)."""

    def __init__(self, table):
        self.table = table

    def get_shard(self, key, n):
        return self.table[key] % n


def event_log_ops(sym, tier):
    """append / retention sweep / read script on a real EventLog (2 partitions, size retention 1-2 or
    none): offsets per partition are 0,1,2,... in append order and never reused after a sweep, the high
    watermark counts every append, a read returns the retained records with offset >= the requested one,
    in increasing offset order without gaps, at most max_records, with the values appended; a sweep keeps
    exactly the newest max_records of each partition."""
    from happysimulator.components.streaming.event_log import EventLog, SizeRetention
    from happysimulator.core.clock import Clock
    r = Result()
    keep = sym.choice("retention_max_records", 3)          # 0 = no retention
    shard = {"a": 0, "b": 1, "c": sym.choice("partition_of_c", 2)}
    log = EventLog("log", num_partitions=2, sharding_strategy=_KeyShard(shard), retention_policy=SizeRetention(keep) if keep else None)
    log.set_clock(Clock(Instant(0)))
    model = {0: [], 1: []}          # partition -> list of (offset, key, value) still retained
    hw = {0: 0, 1: 0}
    n = 4 if tier == "quick" else 5
    script = []
    for s_ in range(n):
        op = sym.choice(f"op{s_}", 3) if s_ > 0 else 0
        if op == 0:
            k = ["a", "b", "c"][sym.choice(f"key{s_}", 3)]
            rec = log._do_append(k, 100 + s_)
            p_ = shard[k]
            script.append(("append", k))
            if rec.partition != p_ or rec.offset != hw[p_]:
                r.bad("offsets_assigned_in_append_order_per_partition", {"script": script, "record": [rec.partition, rec.offset], "expected": [p_, hw[p_]]})
            model[p_].append((hw[p_], k, 100 + s_))
            hw[p_] += 1
        elif op == 1:
            expired = log._apply_retention()
            script.append(("sweep",))
            want = 0
            if keep:
                for p_ in (0, 1):
                    extra = len(model[p_]) - keep
                    if extra > 0:
                        model[p_] = model[p_][extra:]
                        want += extra
                        r.wit.add("records_expired")
            if expired != want:
                r.bad("sweep_expires_exactly_the_excess", {"script": script, "expired": expired, "expected": want})
        else:
            p_ = sym.choice(f"read_partition{s_}", 2)
            off = sym.int(f"read_offset{s_}", 0, 3)
            mx = sym.int(f"max_records{s_}", 1, 2)
            got = [(x.offset, x.key, x.value) for x in log._do_read(p_, off, mx)]
            script.append(("read", p_, off, mx))
            want = [x for x in model[p_] if x[0] >= off][:mx]
            if got != want:
                r.bad("read_returns_retained_records_from_offset_in_order", {"script": script, "got": got, "expected": want})
            if want and want[0][0] > off:
                r.wit.add("read_below_the_retained_range")
        for p_ in (0, 1):
            if log.high_watermark(p_) != hw[p_]:
                r.bad("high_watermark_counts_every_append", {"script": script, "partition": p_, "hw": log.high_watermark(p_), "expected": hw[p_]})
            offs = [x.offset for x in log.partitions[p_].records]
            if offs != [x[0] for x in model[p_]]:
                r.bad("partition_holds_exactly_the_retained_offsets", {"script": script, "partition": p_, "offsets": offs, "expected": [x[0] for x in model[p_]]})
    r.obs = {"script": script}
    return r



# ------------------------------------------------------------------ Topic fan-out in the engine
def topic_fanout(sym, tier):
    """A real Topic (delivery latency 0 or 1 ms) with 3 potential subscribers in the real engine: a script
    of subscribe / unsubscribe / publish events at symbolic whole milliseconds.  Every published message
    reaches exactly the subscribers that were active when its publish began, exactly once each, nobody
    else; no delivery is dated before the clock; the delivered counter equals the deliveries made."""
    from happysimulator.components.messaging.topic import Topic
    from happysimulator.core.event import Event
    r = Result()
    lat = [0.0, 0.001][sym.choice("delivery_latency", 2)]
    topic = Topic("topic", delivery_latency=lat)
    got = []

    class Sub(Entity):
        def handle_event(self, event):
            pl = event.context.get("payload")
            got.append((self.name, pl.event_type if pl is not None else None, self.now.nanoseconds))

    NS = 2 if tier == "quick" else 3
    subs = [Sub(f"s{i}") for i in range(NS)]
    n = 4
    plan = []
    t = 0
    for s_ in range(n):
        t = t + sym.choice(f"gap{s_}", 2 if tier == "quick" else 3)      # 0, 1 (or 2) ms after the previous step
        kind = sym.choice(f"op{s_}", 3) if s_ > 0 else 0     # 0 subscribe, 1 unsubscribe, 2 publish
        who = sym.choice(f"who{s_}", NS) if kind != 2 else 0
        plan.append((t, kind, who))
    expected = []         # (subscriber, message)
    active = set()
    evs = []
    # the expected audience of a publish is the set active when its event is processed: plan order at equal instants = creation order
    for i, (tm, kind, who) in enumerate(plan):
        if kind == 0:
            evs.append(Event.once(time=Instant(tm * 1_000_000), event_type=f"sub{i}", fn=lambda e, w=who: topic.subscribe(subs[w]) and None))
            active.add(who)
        elif kind == 1:
            evs.append(Event.once(time=Instant(tm * 1_000_000), event_type=f"unsub{i}", fn=lambda e, w=who: topic.unsubscribe(subs[w])))
            active.discard(who)
        else:
            msg = Event(time=Instant(tm * 1_000_000), event_type=f"m{i}", target=subs[0])
            evs.append(Event(time=Instant(tm * 1_000_000), event_type="publish", target=topic, context={"payload": msg}))
            for w in sorted(active):
                expected.append((f"s{w}", f"m{i}"))
            if active:
                r.wit.add("published_to_somebody")
    sim = Simulation(entities=[topic] + subs)
    mon = Monitor(sim, cap=60)
    evs.append(mk_event((t + 20) * 1_000_000, "keepalive", subs[0]))
    sim.schedule(evs)
    try:
        sim.run()
    except SpinDetected:
        pass
    mon.judge(r, "topic")
    deliveries = sorted((a, b) for (a, b, c) in got if b is not None and b.startswith("m"))
    if deliveries != sorted(expected):
        r.bad("every_message_reaches_exactly_the_active_subscribers_once", {"plan": plan, "latency_s": lat, "delivered": deliveries, "expected": sorted(expected)})
    if topic.stats.messages_delivered != len(expected):
        r.bad("delivered_counter_matches_deliveries", {"counter": topic.stats.messages_delivered, "expected": len(expected), "plan": plan})
    if lat > 0 and expected:
        r.wit.add("non_zero_delivery_latency")
    r.obs = {"plan": plan, "deliveries": deliveries}
    return r



# ------------------------------------------------------------------ OutboxRelay in the engine
def outbox_relay(sym, tier):
    """A real OutboxRelay (relay latency 0 or 1 ms, batch size 1-2, poll interval 10 ms) in the real engine:
    a writer adds 1-3 entries at symbolic whole milliseconds and primes the poll loop.  Every entry
    written reaches the downstream entity exactly once, in the order written; nothing is dated before
    the clock; entries_relayed counts what really arrived."""
    from happysimulator.components.microservice.outbox_relay import OutboxRelay
    r = Result()
    lat = [0.0, 0.001][sym.choice("relay_latency", 2)]
    batch = 1 + sym.choice("batch_size_minus_1", 2)
    got = []

    class Down(Entity):
        def handle_event(self, event):
            pl = event.context.get("payload")
            if pl is not None:
                got.append((pl.get("n"), self.now.nanoseconds))

    down = Down("down")
    ob = OutboxRelay("outbox", downstream=down, poll_interval=0.01, batch_size=batch, relay_latency=lat)
    n = 1 + sym.choice("entries_minus_1", 3)
    t = 0
    plan = []
    for i in range(n):
        t = t + sym.choice(f"gap{i}", 3) * 5          # 0, 5 or 10 ms after the previous write
        plan.append(t)

    class Writer(Entity):
        def handle_event(self, event):
            i = int(event.event_type[1:])
            ob.write({"n": i})
            return [ob.prime_poll()] if i == 0 else None

    wr = Writer("writer")
    sim = Simulation(entities=[ob, down, wr], end_time=Instant((t + 200) * 1_000_000))
    mon = Monitor(sim, cap=60)
    sim.schedule([mk_event(tm * 1_000_000, f"w{i}", wr) for i, tm in enumerate(plan)])
    try:
        sim.run()
    except SpinDetected:
        pass
    mon.judge(r, "outbox_relay")
    arrived = [x[0] for x in got]
    if arrived != list(range(n)):
        r.bad("every_entry_reaches_the_downstream_once_in_order", {"written": list(range(n)), "arrived": got, "plan_ms": plan, "relay_latency_s": lat, "batch": batch})
    if ob.stats.entries_relayed != len(arrived):
        r.bad("relayed_counter_matches_arrivals", {"counter": ob.stats.entries_relayed, "arrived": len(arrived)})
    if lat > 0 and n >= 2:
        r.wit.add("non_zero_relay_latency_and_two_entries")
    if n > batch:
        r.wit.add("more_entries_than_one_batch")
    r.obs = {"arrived": got}
    return r


MANIFEST = {
    "note": "Message-queue delivery latency from {0, 1 ms}; publish / poll instants are symbolic whole milliseconds; consumer reactions are a symbolic script. "
            "Topic, EventLog offsets/retention, stream processor, outbox relay and idempotency store are not covered by this check.",
}

HARNESSES = [
    H(name="c19_message_queue", fn=message_queue, shape="S", budget=lambda tier: 900.0 if tier == "quick" else 3000.0,
      cubes=lambda tier: ([{"delivery_latency": a, "max_redeliveries_minus_1": b, "action0": c, "visibility_timeout_and_late_ack": 0} for a in range(2) for b in range(2) for c in range(4)]
                          + [{"delivery_latency": a, "max_redeliveries_minus_1": 1, "action0": 3, "visibility_timeout_and_late_ack": 1, "late_ack_gap_ms": g,
                              **({"pub1_at_ms": 0} if tier == "quick" else {})} for a in range(2) for g in range(4)]),
      require=lambda tier: ["redelivered", "dead_lettered", "non_zero_delivery_latency", "timeout_then_late_ack"], classify=mq_classify,
      functions=["MessageQueue.publish/poll/_deliver_message/acknowledge/reject/handle_event/_get_next_consumer", "DeadLetterQueue.add_message"],
      bounds=lambda tier: {"messages": 2, "polls": 3 if tier == "quick" else 4, "consumer actions": ["ack", "reject+requeue", "reject", "ignore (optionally acknowledged late after a visibility timeout + schedule_redelivery)"], "max_redeliveries": [1, 2], "delivery latency": [0.0, 0.001]},
      outside=["several consumers / unsubscribe during a delivery", "Topic fan-out", "EventLog offsets and retention", "stream_processor, outbox_relay, idempotency_store"]),
    H(name="c19_topic_fanout", fn=topic_fanout, shape="S", budget=lambda tier: 900.0 if tier == "quick" else 3000.0,
      cubes=lambda tier: [{"delivery_latency": a, "op1": b, "gap1": g} for a in range(2) for b in range(3) for g in range(2 if tier == "quick" else 3)],
      require=lambda tier: ["published_to_somebody", "non_zero_delivery_latency"], classify=asg_classify,
      functions=["Topic.subscribe/unsubscribe/publish/handle_event"],
      bounds=lambda tier: {"subscribers": 2 if tier == "quick" else 3, "steps": 4, "step kinds": ["subscribe", "unsubscribe", "publish"], "instants": "whole ms, each 0-1 (thorough 0-2) ms after the previous step", "delivery latency": [0.0, 0.001]},
      outside=["replay_history / retained messages", "max_subscribers", "a membership change while a publish is paying its delivery latency (the audience is fixed when the publish begins)"]),
    H(name="c19_outbox_relay", fn=outbox_relay, shape="S", budget=lambda tier: 600.0,
      cubes=lambda tier: [{"relay_latency": a, "batch_size_minus_1": b} for a in range(2) for b in range(2)],
      require=lambda tier: ["non_zero_relay_latency_and_two_entries", "more_entries_than_one_batch"], classify=asg_classify,
      functions=["OutboxRelay.write/prime_poll/handle_event/_handle_poll/_schedule_poll"],
      bounds=lambda tier: {"entries": "1-3, written 0/5/10 ms apart", "relay latency": [0.0, 0.001], "batch size": [1, 2], "poll interval": "10 ms", "run": "200 ms after the last write"},
      outside=["relay failures", "idempotency store", "stream processor"]),
    H(name="c19_event_log_ops", fn=event_log_ops, shape="S", budget=lambda tier: 900.0 if tier == "quick" else 3000.0,
      cubes=lambda tier: [{"retention_max_records": a, "op1": b, "op2": c} for a in range(3) for b in range(3) for c in range(3)],
      require=lambda tier: ["records_expired", "read_below_the_retained_range"], classify=asg_classify,
      functions=["EventLog._do_append/_do_read/_apply_retention/high_watermark", "SizeRetention"],
      bounds=lambda tier: {"partitions": 2, "operations": 4 if tier == "quick" else 5, "keys": 3, "size retention": ["none", 1, 2], "read": "symbolic partition, offset 0..3, max_records 1..2"},
      assumptions=["HashSharding replaced by a table-driven sharding strategy (the hash is a C-level function)"],
      outside=["TimeRetention (float ages)", "append/read latencies through the engine"]),
    H(name="c19_assign_sequences", fn=assign_sequences, shape="K", budget=lambda tier: 900.0 if tier == "quick" else 3000.0,
      cubes=lambda tier: [{"strategy": a, "partitions_minus_1": b} for a in range(3) for b in range(4)],
      require=lambda tier: ["member_left_while_another_stayed", "member_joined_or_rejoined"], classify=asg_classify,
      functions=["RangeAssignment.assign", "RoundRobinAssignment.assign", "StickyAssignment.assign"],
      bounds=lambda tier: {"generations": 4 if tier == "quick" else 5, "member set per generation": "any subset of 3 names (given in reverse order in odd generations)", "partitions": [1, 2, 3, 4]},
      outside=["more than 3 consumers / 4 partitions"]),
    H(name="c19_assignment", fn=assignment, shape="S", budget=lambda tier: 900.0 if tier == "quick" else 3000.0,
      cubes=lambda tier: [{"strategy": a, "partitions_minus_2": b, "who0": 0, "who1": c} for a in range(3) for b in range(3) for c in range(3)],
      require=lambda tier: ["two_members", "script_completed"], classify=asg_classify,
      functions=["ConsumerGroup.join/leave/commit/handle_event/_rebalance", "RangeAssignment/RoundRobinAssignment/StickyAssignment.assign"],
      bounds=lambda tier: {"membership changes": 4 if tier == "quick" else 5, "consumers": 3, "partitions": [2, 3, 4], "commits": "two symbolic offsets on partition 0"}),
]
