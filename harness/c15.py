"""C15 — durably acknowledged writes survive a crash at any point."""
from __future__ import annotations

from happysimulator.components.storage.lsm_tree import LSMTree, SizeTieredCompaction, _TOMBSTONE
from happysimulator.components.storage.wal import SyncEveryWrite, SyncOnBatch, SyncPeriodic, WriteAheadLog
from happysimulator.core.entity import Entity
from happysimulator.core.simulation import Simulation

from harness.common import mk_event
from vf.harness import H
from vf.sym import Result

POLICIES = ["every_write", "batch_2", "periodic_1ms"]


def _policy(i):
    return [SyncEveryWrite(), SyncOnBatch(2), SyncPeriodic(0.001)][i]


class _Writer(Entity):
    def __init__(self, name, body):
        super().__init__(name)
        self.body = body

    def handle_event(self, event):
        return self.body(self)


def crash_recovery(sym, tier):
    """Two writer processes (puts/deletes on k0,k1, symbolic values and start offset) run against a real
    LSMTree + WriteAheadLog inside the engine; the run is stopped after a symbolic number of events
    (between any two simulation events, also in the middle of a flush), then crash(), recover, read."""
    r = Result()
    pol = sym.choice("policy", 3)
    msize = 1 + sym.choice("memtable_minus_1", 2)
    wal = WriteAheadLog("wal", sync_policy=_policy(pol))
    t = LSMTree("lsm", memtable_size=msize, compaction_strategy=SizeTieredCompaction(min_sstables=4), wal=wal, max_levels=3)
    vals = [sym.int(f"v{i}", 1 + 10 * i, 9 + 10 * i) for i in range(4)]
    w2_delete = sym.bool("writer2_deletes_k0")
    start2 = sym.int("writer2_start_ns", 0, 2_500_000)
    log = []          # (seq, key, value or None, durable at return)
    real_append = wal.append

    def append(key, value):
        seq = yield from real_append(key, value)
        log.append([seq, key, None if value is _TOMBSTONE else value, wal.synced_up_to >= seq])
        return seq

    wal.append = append
    started = []      # every write attempted (appended to the WAL or about to be)

    def w1(self):
        started.append(("k0", vals[0]))
        yield from t.put("k0", vals[0])
        started.append(("k1", vals[1]))
        yield from t.put("k1", vals[1])

    def w2(self):
        if w2_delete:
            started.append(("k0", None))
            yield from t.delete("k0")
        else:
            started.append(("k0", vals[2]))
            yield from t.put("k0", vals[2])
        started.append(("k1", vals[3]))
        yield from t.put("k1", vals[3])

    a, b = _Writer("w1", w1), _Writer("w2", w2)
    sim = Simulation(entities=[t, a, b])
    c = sim.control
    sim.schedule([mk_event(0, "go", a), mk_event(start2, "go", b)])
    c.pause()
    sim.run()
    crash_after = sym.int("crash_after_events", 0, 40)
    if crash_after > 0:
        c.step(crash_after)
    if not c.is_paused:
        r.wit.add("ran_to_completion")
    flushing = len(t._immutable_memtables) > 0
    if flushing:
        r.wit.add("crash_in_the_middle_of_a_flush")
    # entries acknowledged as synced before the crash
    synced_at_crash = wal.synced_up_to
    t.crash()
    t.recover_from_crash()
    got1 = {k: t.get_sync(k) for k in ("k0", "k1")}
    t.crash()
    t.recover_from_crash()
    got2 = {k: t.get_sync(k) for k in ("k0", "k1")}
    if got1 != got2:
        r.bad("recovering_twice_equals_recovering_once", got1, got2)
    for k in ("k0", "k1"):
        writes = sorted([e for e in log if e[1] == k])             # acknowledged appends, by sequence
        attempted = [v for (kk, v) in started if kk == k]
        durable = [e for e in writes if e[3]]
        if durable:
            r.wit.add("durable_write_before_crash")
            last = durable[-1]
            ok = [last[2]] + [e[2] for e in writes if e[0] > last[0]] + [v for v in attempted if v not in [e[2] for e in writes]]
            if got1[k] not in ok:
                r.bad("durably_acknowledged_write_survives_crash", {"key": k, "recovered": got1[k], "acceptable": ok, "wal_log": log,
                                                                     "synced_up_to_at_crash": synced_at_crash, "flush_in_progress": flushing})
        else:
            ok = [None] + attempted
            if got1[k] not in ok:
                r.bad("no_value_that_was_never_written_appears", {"key": k, "recovered": got1[k], "attempted": attempted})
    r.obs = {"log": log, "recovered": got1}
    return r


def wal_lemma(sym, tier):
    """WriteAheadLog alone: two concurrent appenders under each sync policy, crash after a symbolic number
    of events: crash() keeps exactly the entries acknowledged as synced (and possibly later synced ones),
    synced_up_to never decreases."""
    r = Result()
    pol = sym.choice("policy", 3)
    wal = WriteAheadLog("wal", sync_policy=_policy(pol))
    start2 = sym.int("writer2_start_ns", 0, 1_500_000)
    acked = []
    hist = []

    def mk(i):
        def body(self):
            for j in range(2):
                seq = yield from wal.append(f"k{i}", 10 * i + j)
                acked.append((seq, wal.synced_up_to >= seq))
                hist.append(wal.synced_up_to)
        return body

    a, b = _Writer("w1", mk(1)), _Writer("w2", mk(2))
    sim = Simulation(entities=[wal, a, b])
    c = sim.control
    seen = []
    c.on_event(lambda e: seen.append(wal.synced_up_to))
    sim.schedule([mk_event(0, "go", a), mk_event(start2, "go", b)])
    c.pause()
    sim.run()
    n = sym.int("crash_after_events", 0, 24)
    if n > 0:
        c.step(n)
    for x, y in zip(seen, seen[1:]):
        if y < x:
            r.bad("synced_up_to_never_decreases", seen)
            break
    wal.crash()
    kept = {e.sequence_number for e in wal.recover()}
    for (seq, durable) in acked:
        if durable:
            r.wit.add("durable_ack")
            if seq not in kept:
                r.bad("entry_acknowledged_as_synced_survives_crash", {"seq": seq, "kept": sorted(kept), "acked": acked, "synced_history": seen})
    r.obs = {"acked": acked, "kept": sorted(kept)}
    return r


def classify(clause, draws, obs):
    return None


def wal_ops(sym, tier):
    """WriteAheadLog bookkeeping from an arbitrary log state: n entries, an arbitrary subset already
    discarded (flushed memtables need not cover a contiguous run of sequences when writers overlap),
    an arbitrary synced_up_to.  discard(S) removes exactly S; truncate(u) exactly the entries <= u;
    crash() keeps exactly the remaining entries with sequence <= synced_up_to and reports the number lost."""
    r = Result()
    N = 5 if tier == "quick" else 6
    wal = WriteAheadLog("wal", sync_policy=SyncOnBatch(2))
    n = sym.int("entries", 1, N)
    seqs = [wal.append_sync(f"k{i}", i) for i in range(n)]
    synced = sym.int("synced_up_to", 0, N)
    if synced > n:
        synced = n
    wal._synced_up_to_sequence = synced          # state construction (invariant: 0 <= synced_up_to <= last sequence)
    gone = [q for q in seqs if sym.bool(f"discard{q}")]
    wal.discard(list(reversed(gone)) if sym.bool("reversed") else list(gone))
    left = [e.sequence_number for e in wal.recover()]
    want = [q for q in seqs if q not in gone]
    if left != want:
        r.bad("discard_removes_exactly_the_given_sequences", {"entries": seqs, "discarded": gone, "left": left})
    if gone and gone != list(range(gone[0], gone[-1] + 1)):
        r.wit.add("non_contiguous_discard")
    op = sym.choice("then", 2)
    if op == 1:
        u = sym.int("truncate_up_to", 0, N)
        wal.truncate(u)
        want = [q for q in want if q > u]
        left = [e.sequence_number for e in wal.recover()]
        if left != want:
            r.bad("truncate_removes_exactly_the_prefix", {"up_to": u, "left": left, "want": want})
    lost = wal.crash()
    after = [e.sequence_number for e in wal.recover()]
    keep = [q for q in want if q <= synced]
    if after != keep:
        r.bad("crash_keeps_exactly_the_synced_entries", {"before": want, "synced_up_to": synced, "after": after})
    if lost != len(want) - len(keep):
        r.bad("crash_reports_the_number_lost", lost, len(want) - len(keep))
    if any(q <= synced for q in gone) and any(q <= synced for q in want) and any(q > synced for q in gone):
        r.wit.add("flushed_unsynced_entry_and_synced_entry_still_in_log")
    again = wal.crash()
    if again != 0 or [e.sequence_number for e in wal.recover()] != keep:
        r.bad("second_crash_loses_nothing_more", again)
    if wal.synced_up_to != synced:
        r.bad("synced_up_to_unchanged_by_bookkeeping", wal.synced_up_to, synced)
    r.obs = {"entries": n, "synced": synced, "discarded": gone, "after": after}
    return r


def second_crash(sym, tier):
    """Crash, recover, KEEP WRITING, crash again.  One sequential writer: phase 1 puts 2..3 keys and settles;
    crash() + recover_from_crash(); phase 2 deletes or overwrites k0, overwrites k1 and adds new keys (enough for
    a memtable flush, whose WAL discard must also cover the entries the first recovery replayed); the second
    crash comes after a symbolic number of phase-2 events; recover (twice) and read every key."""
    r = Result()
    pol = sym.choice("policy", 3)
    deep = tier != "quick"
    msize = 2 + sym.choice("memtable_minus_2", 4 if deep else 3)
    wal = WriteAheadLog("wal", sync_policy=_policy(pol))
    t = LSMTree("lsm", memtable_size=msize, compaction_strategy=SizeTieredCompaction(min_sstables=4), wal=wal, max_levels=3)
    n1 = 2 + sym.choice("phase1_writes_minus_2", 3 if deep else 2)
    v = [sym.int(f"v{i}", 1 + 10 * i, 9 + 10 * i) for i in range(6 if deep else 5)]
    k0_deleted = sym.bool("phase2_deletes_k0")
    crash2_after = sym.int("second_crash_after_events", 0, 60 if deep else 40)
    phase1 = ([("k0", v[0]), ("k1", v[1]), ("k2", v[2])] + ([("k0", v[5])] if deep else []))[:n1]   # thorough: k0 may be overwritten within phase 1
    phase2 = [("k0", None if k0_deleted else v[3]), ("k1", v[4]), ("k3", 71), ("k4", 72), ("k5", 73)]
    keys = ["k0", "k1", "k2", "k3", "k4", "k5"]
    log = []          # [seq, key, value or None, durable at return]
    real_append = wal.append

    def append(key, value):
        seq = yield from real_append(key, value)
        log.append([seq, key, None if value is _TOMBSTONE else value, wal.synced_up_to >= seq])
        return seq

    wal.append = append
    started = []
    todo = list(phase1) + list(phase2)

    def body(self):
        k, val = todo.pop(0)
        started.append((k, val))
        if val is None:
            yield from t.delete(k)
        else:
            yield from t.put(k, val)

    w = _Writer("w", body)
    sim = Simulation(entities=[t, w])
    c = sim.control
    P2 = 1_000_000_000
    sim.schedule([mk_event(10_000_000 * (i + 1), "go", w) for i in range(len(phase1))]
                 + [mk_event(P2 + 10_000_000 * (i + 1), "go", w) for i in range(len(phase2))])
    c.pause()
    sim.run()
    for _ in range(400):                                     # phase 1 runs until nothing of it is left in the heap
        nxt = c.peek_next(1)
        if not nxt or nxt[0].time.nanoseconds >= P2:
            break
        c.step(1)
    synced1 = [e for e in log if e[3]]
    if len(synced1) >= 2 and len([e for e in wal.recover() if e.sequence_number <= wal.synced_up_to]) >= 2:
        r.wit.add("first_recovery_replays_two_synced_entries")
    t.crash()
    t.recover_from_crash()
    base = {k: t.get_sync(k) for k in keys}
    for k in keys:
        d = [e for e in log if e[1] == k and e[3]]
        if d and base[k] != d[-1][2]:
            r.bad("durably_acknowledged_write_survives_crash", {"key": k, "recovered": base[k], "wal_log": list(log), "crash": "first"})
        if not d and base[k] not in [None] + [val for (kk, val) in started if kk == k]:
            r.bad("no_value_that_was_never_written_appears", {"key": k, "recovered": base[k]})
    n_log1, n_started1 = len(log), len(started)
    sst_before = sum(len(level) for level in t._levels) if hasattr(t, "_levels") else None
    if crash2_after > 0:
        c.step(crash2_after)
    if not c.is_paused:
        r.wit.add("ran_to_completion")
    log2, started2 = log[n_log1:], started[n_started1:]
    if sst_before is not None and sum(len(level) for level in t._levels) > sst_before:
        r.wit.add("second_crash_after_a_phase2_flush_completed")
    if len(t._immutable_memtables) > 0:
        r.wit.add("second_crash_in_the_middle_of_a_flush")
    t.crash()
    t.recover_from_crash()
    got1 = {k: t.get_sync(k) for k in keys}
    t.crash()
    t.recover_from_crash()
    got2 = {k: t.get_sync(k) for k in keys}
    if got1 != got2:
        r.bad("recovering_twice_equals_recovering_once", got1, got2)
    for k in keys:
        writes = sorted([e for e in log2 if e[1] == k])
        attempted = [val for (kk, val) in started2 if kk == k]
        durable = [e for e in writes if e[3]]
        if durable:
            last = durable[-1]
            ok = [last[2]] + [e[2] for e in writes if e[0] > last[0]] + [val for val in attempted if val not in [e[2] for e in writes]]
        else:
            ok = [base[k]] + attempted
        if got1[k] not in ok:
            old = [e[2] for e in log[:n_log1] if e[1] == k]
            clause = "no_overwritten_or_deleted_value_is_resurrected" if (got1[k] in old and got1[k] != base[k]) or (durable and got1[k] in old) \
                else "durably_acknowledged_write_survives_crash"
            r.bad(clause, {"key": k, "recovered": got1[k], "acceptable": ok, "after_first_recovery": base[k], "phase1_log": log[:n_log1],
                           "phase2_log": log2, "memtable_size": msize})
    r.obs = {"base": base, "recovered": got1, "log": log}
    return r


MANIFEST = {
    "note": "Crash point = a symbolic number of delivered events (control.step), i.e. between any two simulation events; a crash inside one "
            "handler is not a state the engine exposes. 'Durably acknowledged' = wal.append() returned with synced_up_to >= its sequence.",
}

HARNESSES = [
    H(name="c15_wal_lemma", fn=wal_lemma, shape="S", budget=lambda tier: 900.0,
      cubes=lambda tier: [{"policy": a} for a in range(3)],
      require=lambda tier: ["durable_ack"], classify=classify,
      functions=["WriteAheadLog.append/crash/recover", "SyncEveryWrite/SyncOnBatch/SyncPeriodic.should_sync"],
      bounds=lambda tier: {"appenders": 2, "appends each": 2, "second appender start": "symbolic ns [0, 1.5 ms]", "crash after": "symbolic number of events [0,24]", "policies": POLICIES}),
    H(name="c15_wal_ops", fn=wal_ops, shape="I", budget=lambda tier: 900.0,
      cubes=lambda tier: [{"entries": n} for n in range(1, (5 if tier == "quick" else 6) + 1)],
      require=lambda tier: ["non_contiguous_discard", "flushed_unsynced_entry_and_synced_entry_still_in_log"], classify=classify,
      functions=["WriteAheadLog.append_sync/discard/truncate/crash/recover"],
      bounds=lambda tier: {"entries": "1..%d" % (5 if tier == "quick" else 6), "discarded": "arbitrary subset, given in either order", "synced_up_to": "symbolic in [0, entries]", "then": "crash | truncate(u) then crash; crash twice"},
      assumptions=["0 <= synced_up_to <= last sequence (set directly on the object)"],
      outside=["more entries"]),
    H(name="c15_crash_recovery", fn=crash_recovery, shape="S", budget=lambda tier: 1500.0 if tier == "quick" else 3000.0,
      cubes=lambda tier: [{"policy": a, "memtable_minus_1": b, "writer2_deletes_k0": d} for a in range(3) for b in range(2) for d in range(2)],
      require=lambda tier: ["durable_write_before_crash", "crash_in_the_middle_of_a_flush", "ran_to_completion"], classify=classify,
      functions=["LSMTree.put/delete/_flush_memtable/crash/recover_from_crash", "WriteAheadLog.append/truncate/crash/recover", "Memtable.put/flush"],
      bounds=lambda tier: {"writers": 2, "writes": 4, "keys": 2, "values": "symbolic", "second writer start": "symbolic ns [0, 2.5 ms]", "crash after": "symbolic number of events [0,40]",
                           "memtable size": [1, 2], "policies": POLICIES},
      outside=["crash in the middle of a compaction (min_sstables=4 is not reached by 4 writes)", "disk model", "more than 4 writes"]),
    H(name="c15_second_crash", fn=second_crash, shape="S", budget=lambda tier: 900.0,
      cubes=lambda tier: [{"policy": a, "memtable_minus_2": b, "phase2_deletes_k0": d} for a in range(3) for b in range(3 if tier == "quick" else 4) for d in range(2)],
      require=lambda tier: ["first_recovery_replays_two_synced_entries", "second_crash_after_a_phase2_flush_completed", "ran_to_completion"], classify=classify,
      functions=["LSMTree.put/delete/_flush_memtable/crash/recover_from_crash (bookkeeping of replayed WAL sequences)", "WriteAheadLog.append/discard/crash/recover", "Memtable.put/flush"],
      bounds=lambda tier: {"writer": "1, sequential", "phase 1": "2..3 puts, then settled" if tier == "quick" else "2..4 puts (the 4th overwrites k0), then settled", "first crash": "at the quiet moment after phase 1", "phase 2": "delete|put k0, put k1, 3 new keys",
                           "second crash after": "symbolic number of phase-2 events [0,%d]" % (40 if tier == "quick" else 60), "memtable size": [2, 3, 4] if tier == "quick" else [2, 3, 4, 5], "values": "symbolic", "policies": POLICIES},
      outside=["first crash in the middle of phase 1 (c15_crash_recovery covers single crashes at any event)", "three or more crash/recover cycles", "concurrent writers across two crashes"]),
]
