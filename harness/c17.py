"""C17 — replication: acknowledged writes are where the mode promises, replicas converge."""
from __future__ import annotations

from happysimulator.components.datastore.kv_store import KVStore
from happysimulator.components.network.link import NetworkLink
from happysimulator.components.network.network import Network
from happysimulator.components.replication.chain_replication import build_chain
from happysimulator.components.replication.primary_backup import BackupNode, PrimaryNode, ReplicationMode
from happysimulator.core.entity import Entity
from happysimulator.core.event import Event
from happysimulator.core.sim_future import SimFuture
from happysimulator.core.simulation import Simulation
from happysimulator.core.temporal import Duration, Instant
from happysimulator.distributions.latency_distribution import LatencyDistribution

from harness.common import Monitor, SpinDetected, mk_event
from vf.harness import H
from vf.sym import Result

MODES = [ReplicationMode.ASYNC, ReplicationMode.SEMI_SYNC, ReplicationMode.SYNC]
DELAYS_S = [0.001, 0.004]


class SymLatency(LatencyDistribution):
    """Per-message delay chosen by the solver from a concrete table (so messages can overtake each other)."""

    def __init__(self, sym, tag, limit):
        super().__init__(DELAYS_S[0])
        self.sym, self.tag, self.n, self.limit = sym, tag, 0, limit

    def get_latency(self, current_time):
        self.n += 1
        if self.n > self.limit:
            return Duration.from_seconds(DELAYS_S[0])
        return Duration.from_seconds(DELAYS_S[self.sym.choice(f"{self.tag}_delay{self.n}", 2)])

    def __deepcopy__(self, memo):
        return self


class Client(Entity):
    def __init__(self, name):
        super().__init__(name)

    def handle_event(self, event):
        return None


def _store(name):
    return KVStore(name, read_latency=0.0001, write_latency=0.0002)


def _write(t_ns, target, key, value, fut):
    return Event(time=Instant(t_ns), event_type="Write", target=target, context={"metadata": {"key": key, "value": value, "reply_future": fut}})


def primary_backup(sym, tier):
    r = Result()
    mode = MODES[sym.choice("mode", 3)]
    net = Network(name="net")
    pstore = _store("p_store")
    backups = []
    primary = PrimaryNode("primary", pstore, backups, net, mode=mode)
    nb = 2
    for i in range(nb):
        b = BackupNode(f"backup{i}", _store(f"b{i}_store"), net, primary)
        backups.append(b)
    primary._backups = backups
    primary._backup_lag = {b.name: 0 for b in backups}
    for b in backups:
        net.add_link(primary, b, NetworkLink(name=f"p-{b.name}", latency=SymLatency(sym, b.name, 2)))
        net.add_link(b, primary, NetworkLink(name=f"{b.name}-p", latency=SymLatency(sym, "ack" + b.name, 0)))
    sim = Simulation(entities=[net, primary, pstore] + backups + [b.store for b in backups])
    mon = Monitor(sim, cap=60)
    v = [sym.int("v1", 1, 9), sym.int("v2", 11, 19)]
    gap = sym.int("second_write_after_ns", 0, 3_000_000)
    futs = [SimFuture(), SimFuture()]
    acked = []

    def on_ev(e):
        for i, f in enumerate(futs):
            if f.is_resolved and i not in [a[0] for a in acked]:
                acked.append((i, [b.store.get_sync("k") for b in backups], sim._clock.now.nanoseconds))

    sim.control.on_event(on_ev)
    sim.schedule([_write(0, primary, "k", v[0], futs[0]), _write(gap, primary, "k", v[1], futs[1]),
                  mk_event(100_000_000, "keepalive", Client("c"))])
    try:
        sim.run()
    except SpinDetected:
        pass
    mon.judge(r, "primary_backup")
    for (i, bvals, t) in acked:
        ok_vals = [v[j] for j in range(i, 2)]            # this write or a later one
        have = [x in ok_vals for x in bvals]
        if mode == ReplicationMode.SYNC and not all(have):
            r.bad("sync_ack_means_applied_on_every_backup", {"write": i, "backups": bvals, "values": v, "at_ns": t})
        if mode == ReplicationMode.SEMI_SYNC and not any(have):
            r.bad("semi_sync_ack_means_applied_on_some_backup", {"write": i, "backups": bvals, "values": v, "at_ns": t})
    if len(acked) != 2 and not mon.spun:
        r.bad("every_write_is_acknowledged", len(acked))
    final = [pstore.get_sync("k")] + [b.store.get_sync("k") for b in backups]
    if len(set(final)) != 1:
        r.bad("replicas_converge_at_quiescence", {"primary": final[0], "backups": final[1:], "values": v, "mode": mode.name})
    if any(b.stats.replications_applied == 2 for b in backups):
        r.wit.add("both_writes_replicated")
    r.obs = {"mode": mode.name, "final": final, "acked": acked}
    return r


def pb_classify(clause, draws, obs):
    return None


def chain(sym, tier):
    """3-node CRAQ chain, two writes to one key, reads at head / middle / tail at symbolic instants:
    acknowledged write is on every node; a read never returns a value the tail has not committed; the
    chain converges."""
    r = Result()
    net = Network(name="net")
    stores = {}

    def factory(name):
        stores[name] = _store(name)
        return stores[name]

    nodes = build_chain(["h", "m", "t"], net, factory, craq_enabled=True)
    for a in nodes:
        for b in nodes:
            if a is not b:
                lim = 2 if (a.name, b.name) in (("h", "m"), ("m", "t")) else 0
                net.add_link(a, b, NetworkLink(name=f"{a.name}-{b.name}", latency=SymLatency(sym, f"{a.name}{b.name}", lim)))
    sim = Simulation(entities=[net] + nodes + list(stores.values()))
    mon = Monitor(sim, cap=80)
    v = [sym.int("v1", 1, 9), sym.int("v2", 11, 19)]
    gap = sym.pick("second_write_after_ns_sel", [0, 250_000, 3_000_000]) if tier == "quick" else sym.int("second_write_after_ns", 0, 3_000_000)
    futs = [SimFuture(), SimFuture()]
    rfut = SimFuture()
    read_at = sym.int("read_at_ns", 0, 12_000_000)
    read_node = nodes[sym.choice("read_node", 3)]
    tail_hist = []         # (ns, value at tail)
    acked = []

    def on_ev(e):
        tv = nodes[2].store.get_sync("k")
        if not tail_hist or tail_hist[-1][1] != tv:
            tail_hist.append((sim._clock.now.nanoseconds, tv))
        for i, f in enumerate(futs):
            if f.is_resolved and i not in [a[0] for a in acked]:
                acked.append((i, [n.store.get_sync("k") for n in nodes], sim._clock.now.nanoseconds))

    reply_at = []

    def on_reply(f):
        reply_at.append(sim._clock.now.nanoseconds)

    rfut._add_settle_callback(on_reply)
    sim.control.on_event(on_ev)
    rd = Event(time=Instant(read_at), event_type="Read", target=read_node, context={"metadata": {"key": "k", "reply_future": rfut}})
    sim.schedule([_write(0, nodes[0], "k", v[0], futs[0]), _write(gap, nodes[0], "k", v[1], futs[1]), rd,
                  mk_event(100_000_000, "keepalive", Client("c"))])
    try:
        sim.run()
    except SpinDetected:
        pass
    mon.judge(r, "chain")
    for (i, vals, t) in acked:
        ok_vals = [v[j] for j in range(i, 2)]
        if not all(x in ok_vals for x in vals):
            r.bad("chain_ack_means_applied_on_every_node", {"write": i, "nodes": vals, "values": v, "at_ns": t})
    if rfut.is_resolved:
        got = rfut.value.get("value")
        committed = [tv for (t_, tv) in tail_hist if not reply_at or t_ <= reply_at[0]]
        if got is not None and got not in committed:
            r.bad("read_never_returns_value_not_committed_at_tail", {"node": read_node.name, "got": got, "tail_history": tail_hist, "read_at_ns": read_at})
        if got is not None:
            r.wit.add("read_saw_a_write")
    final = [n.store.get_sync("k") for n in nodes]
    if len(set(final)) != 1:
        r.bad("replicas_converge_at_quiescence", {"nodes": final, "values": v})
    r.obs = {"final": final, "tail_history": tail_hist}
    return r


def chain_classify(clause, draws, obs):
    return None



# ------------------------------------------------------------------ multi-leader replication
def multi_leader(sym, tier):
    """Two LeaderNodes (last-writer-wins, no anti-entropy) over a real Network whose per-message delay is 1 ms
    or 4 ms (solver-chosen), stores with a 2 ms write latency: 2-3 writes to one key at symbolic instants at
    either leader, so that a replicated write can arrive while a local write to the same key is still
    being applied.  Once everything has been delivered both leaders hold the same value, it is one of
    the written values, each store agrees with its node's version table, and a write that causally
    follows another one wins over it."""
    from happysimulator.components.replication.multi_leader import LeaderNode
    r = Result()
    net = Network(name="net")
    stores = [KVStore(f"s{i}", read_latency=0.0001, write_latency=0.002) for i in range(2)]
    nodes = [LeaderNode(f"L{i}", stores[i], net) for i in range(2)]
    nodes[0].add_peers([nodes[1]])
    nodes[1].add_peers([nodes[0]])
    net.add_link(nodes[0], nodes[1], NetworkLink(name="0-1", latency=SymLatency(sym, "l01", 3)))
    net.add_link(nodes[1], nodes[0], NetworkLink(name="1-0", latency=SymLatency(sym, "l10", 3)))
    nw = 2 if tier == "quick" else 3
    plan = []
    t = 0
    for i in range(nw):
        t = t + sym.choice(f"gap{i}", 4)            # 0..3 ms after the previous write
        plan.append((t, sym.choice(f"at{i}", 2), 10 + i))
    idle = Client("idle")
    sim = Simulation(entities=[net, idle] + stores + nodes)
    mon = Monitor(sim, cap=80)
    evs = [_write(tm * 1_000_000, nodes[w], "k", v, None) for (tm, w, v) in plan]
    evs.append(mk_event((t + 60) * 1_000_000, "keepalive", idle))
    sim.schedule(evs)
    try:
        sim.run()
    except SpinDetected:
        pass
    mon.judge(r, "multi_leader")
    vals = [stores[i].get_sync("k") for i in range(2)]
    vers = [nodes[i].versions.get("k").value if nodes[i].versions.get("k") is not None else None for i in range(2)]
    written = [v for (_tm, _w, v) in plan]
    if vals[0] != vals[1]:
        r.bad("replicas_converge", {"stores": vals, "plan_ms_node_value": plan, "versions": vers})
    if any(v not in written for v in vals):
        r.bad("converged_value_was_written", {"stores": vals, "written": written})
    for i in range(2):
        if vals[i] != vers[i]:
            r.bad("store_agrees_with_version_table", {"node": i, "store": vals[i], "version": vers[i], "plan_ms_node_value": plan})
    # a write issued at a node at least 10 ms after every earlier write has seen them all: it must win
    last = plan[-1]
    if all(last[0] - p_[0] >= 10 for p_ in plan[:-1]) and vals[0] == vals[1] and vals[0] != last[2]:
        r.bad("causally_later_write_wins", {"stores": vals, "plan_ms_node_value": plan})
    if len({w for (_tm, w, _v) in plan}) == 2:
        r.wit.add("writes_at_both_leaders")
    if any(abs(a[0] - b[0]) <= 2 and a[1] != b[1] for a in plan for b in plan if a is not b):
        r.wit.add("replica_write_arrives_during_a_local_write")
    r.obs = {"stores": vals, "plan": plan}
    return r


MANIFEST = {
    "note": "Per-message network delays are solver-chosen from {1 ms, 4 ms} for the replication messages (later messages 1 ms), so messages for one "
            "key can overtake each other. replicated_store is not covered by this check.",
}

HARNESSES = [
    H(name="c17_primary_backup", fn=primary_backup, shape="S", budget=lambda tier: 900.0 if tier == "quick" else 3000.0,
      cubes=lambda tier: [{"mode": m, "backup0_delay1": a} for m in range(3) for a in range(2)],
      require=lambda tier: ["both_writes_replicated"], classify=pb_classify,
      functions=["PrimaryNode._handle_write/_handle_ack", "BackupNode._handle_replicate", "Network.send/handle_event", "NetworkLink.handle_event", "KVStore.put"],
      bounds=lambda tier: {"backups": 2, "writes": "2 to one key, symbolic values, second at a symbolic offset in [0, 3 ms]", "replication message delays": DELAYS_S, "modes": [m.name for m in MODES]},
      outside=["more than 2 backups / 2 writes", "crashes during replication"]),
    H(name="c17_chain", fn=chain, shape="S", budget=lambda tier: 900.0 if tier == "quick" else 3000.0,
      cubes=lambda tier: [{"read_node": n, "hm_delay1": a, "mt_delay1": b} for n in range(3) for a in range(2) for b in range(2)],
      require=lambda tier: ["read_saw_a_write"], classify=chain_classify,
      functions=["ChainNode._handle_write/_handle_propagate/_handle_write_ack/_handle_read/_handle_commit_notify/_build_commit_notifications", "build_chain"],
      bounds=lambda tier: {"chain": "3 nodes, CRAQ", "writes": "2 to one key", "read": "one, at head/middle/tail, symbolic instant in [0, 12 ms]", "propagate delays": DELAYS_S},
      outside=["chains without CRAQ read at non-tail nodes (served locally by design)", "replicated_store"]),
    H(name="c17_multi_leader", fn=multi_leader, shape="S", budget=lambda tier: 900.0 if tier == "quick" else 3000.0,
      cubes=lambda tier: [{"at0": a, "at1": b, "gap1": g} for a in range(2) for b in range(2) for g in range(4)],
      require=lambda tier: ["writes_at_both_leaders", "replica_write_arrives_during_a_local_write"], classify=chain_classify,
      functions=["LeaderNode._handle_write/_handle_replicate", "LastWriterWins.resolve", "VectorClock.send/receive", "KVStore.put", "Network.send"],
      bounds=lambda tier: {"leaders": 2, "writes": "2 (thorough 3) to one key, 0-3 ms apart, at either leader", "message delays": DELAYS_S, "store write latency": "2 ms", "anti-entropy": "off"},
      outside=["anti-entropy repair", "custom conflict resolvers", "more than 2 leaders"]),
]
