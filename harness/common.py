"""Shared harness helpers: recording entities, delivery logs."""
from __future__ import annotations

from happysimulator.core.entity import Entity
from happysimulator.core.event import Event
from happysimulator.core.temporal import Duration, Instant


def ns(i: Instant) -> int:
    return i.nanoseconds


class Recorder(Entity):
    """Entity that appends (label, event time ns, clock ns) to a shared log and
    then executes a per-label behaviour supplied by the harness."""

    def __init__(self, name, log, behaviour=None):
        super().__init__(name)
        self.log = log
        self.behaviour = behaviour

    def handle_event(self, event):
        label = event.context["metadata"].get("label", event.event_type)
        self.log.append((label, "deliver", event.time.nanoseconds, self.now.nanoseconds, self.name))
        if self.behaviour is not None:
            return self.behaviour(self, event, label)
        return None


def mk_event(t_ns, label, target, daemon=False):
    return Event(time=Instant(t_ns), event_type=label, target=target, daemon=daemon,
                 context={"metadata": {"label": label}})


class SpinDetected(Exception):
    pass


class Monitor:
    """C07 monitor attached to a Simulation: (a) every event pushed on the heap during
    the run must carry a timestamp >= the clock at push time; (b) no single simulated
    instant may see more than ``cap`` deliveries (a finite workload whose clock stops
    advancing is a spin).  Attaching uses only public hooks plus a wrapper around the
    heap's push method; behaviour of the run is unchanged (see C04)."""

    def __init__(self, sim, cap):
        self.sim = sim
        self.cap = cap
        self.stale = []          # (event type, event ns, clock ns)
        self.per_instant = 0
        self.instant = None
        self.max_per_instant = 0
        self.deliveries = 0
        self.spun = False
        heap = sim._event_heap
        orig = heap._push_single
        mon = self

        def _push_single(event):
            if sim._is_running and event.time < sim._clock.now:
                mon.stale.append((event.event_type, event.time.nanoseconds, sim._clock.now.nanoseconds))
            return orig(event)

        heap._push_single = _push_single
        sim.control.on_event(self._on_event)

    def _on_event(self, event):
        self.deliveries += 1
        t = self.sim._clock.now.nanoseconds
        if self.instant is not None and t == self.instant:
            self.per_instant += 1
        else:
            self.instant = t
            self.per_instant = 1
        if self.per_instant > self.max_per_instant:
            self.max_per_instant = self.per_instant
        if self.per_instant > self.cap:
            self.spun = True
            raise SpinDetected(f"{self.per_instant} deliveries at t={t}ns")

    def judge(self, r, tag):
        if self.spun:
            r.bad("no_spin_at_frozen_clock", tag, self.per_instant, self.instant)
        if self.stale:
            r.bad("no_event_into_the_past", tag, self.stale[:3])
