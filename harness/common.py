"""Shared harness helpers: recording entities, delivery logs."""
from __future__ import annotations

from happysimulator.core.entity import Entity
from happysimulator.core.event import Event
from happysimulator.core.temporal import Duration, Instant


def ns(i: Instant) -> int:
    return i.nanoseconds


class Recorder(Entity):
    """Entity that appends (label, event time ns, clock ns) to a shared log and
    then executes a per-label behaviour supplied by the harness."""

    def __init__(self, name, log, behaviour=None):
        super().__init__(name)
        self.log = log
        self.behaviour = behaviour

    def handle_event(self, event):
        label = event.context["metadata"].get("label", event.event_type)
        self.log.append((label, "deliver", event.time.nanoseconds, self.now.nanoseconds, self.name))
        if self.behaviour is not None:
            return self.behaviour(self, event, label)
        return None


def mk_event(t_ns, label, target, daemon=False):
    return Event(time=Instant(t_ns), event_type=label, target=target, daemon=daemon,
                 context={"metadata": {"label": label}})
