"""C05 — partitioned (windowed) execution is equivalent to sequential execution."""
from __future__ import annotations

from happysimulator.core.entity import Entity
from happysimulator.core.simulation import Simulation
from happysimulator.core.temporal import Instant
from happysimulator.parallel.link import PartitionLink
from happysimulator.parallel.partition import SimulationPartition
from happysimulator.parallel.simulation import ParallelSimulation

from harness.common import mk_event
from vf.harness import H
from vf.sym import Result

S = 1_000_000_000
MINLAT = 1.0


class Node(Entity):
    """On 'send<i>' emits a message to the peer stamped now + latency_i (>= the declared
    minimum); logs every delivery."""

    def __init__(self, name, log, lat):
        super().__init__(name)
        self.log = log
        self.lat = lat
        self.peer = None

    def handle_event(self, event):
        label = event.context["metadata"]["label"]
        self.log.append((label, event.time.nanoseconds, self.now.nanoseconds))
        if label.startswith("send"):
            i = int(label[4:])
            return mk_event(self.now.nanoseconds + self.lat[i], f"msg{i}", self.peer)
        if label.startswith("msg") and self.lat.get("reply") is not None:
            return mk_event(self.now.nanoseconds + self.lat["reply"], "reply" + label[3:], self.peer)
        return None


def _build(P):
    la, lb = [], []
    a = Node("a", la, P["lat"])
    b = Node("b", lb, {"reply": P["reply_lat"]} if P["reply_lat"] is not None else {})
    a.peer, b.peer = b, a
    return a, b, la, lb


def _events(P, a, b):
    dm = P.get("daemon", {})
    evs_a = ([mk_event(t, f"send{i}", a, bool(dm.get(f"send{i}"))) for i, t in enumerate(P["ts"])]
             + [mk_event(t, f"alocal{i}", a, bool(dm.get(f"alocal{i}"))) for i, t in enumerate(P.get("ta", []))])
    evs_b = [mk_event(t, f"local{i}", b, bool(dm.get(f"local{i}"))) for i, t in enumerate(P["tu"])]
    return evs_a, evs_b


def equivalence(sym, tier):
    r = Result()
    END = 3
    nsend = 1 if tier == "quick" else 2
    nloc = 1
    P = {
        "ts": [sym.int(f"ts{i}", 0, END * S) for i in range(nsend)],
        "tu": [sym.int(f"tu{i}", 0, END * S + 2) for i in range(nloc)],
        "ta": [sym.pick("ta0_sel", [S + S // 2, 2 * S + S // 2])],      # a later local event at the sender (it must still see the reply in time order)
        "lat": {i: S + sym.int(f"extra{i}", 0, S) for i in range(nsend)},
        "reply_lat": (S + sym.int("reply_extra", 0, S)) if sym.bool("reply") else None,
    }
    # daemon events do not keep an open-ended run alive, but with a finite end_time they are delivered like any other
    P["daemon"] = {"send0": sym.bool("daemon_send0"), "local0": sym.bool("daemon_local0"), "alocal0": sym.bool("daemon_alocal0")}
    window = sym.pick("window", [1.0, 0.5])
    end = Instant.from_seconds(END)
    # ---- sequential reference run
    a, b, la, lb = _build(P)
    seq = Simulation(entities=[a, b], end_time=end)
    ea, eb = _events(P, a, b)
    seq.schedule(ea + eb)
    seq.run()
    ref = {"a": sorted((t, l) for (l, t, c) in la if t <= END * S), "b": sorted((t, l) for (l, t, c) in lb if t <= END * S)}
    # ---- partitioned run
    a2, b2, la2, lb2 = _build(P)
    links = list(PartitionLink.bidirectional("A", "B", min_latency=MINLAT))
    par = ParallelSimulation([SimulationPartition("A", entities=[a2]), SimulationPartition("B", entities=[b2])],
                             end_time=end, links=links, window_size=window)
    ea2, eb2 = _events(P, a2, b2)
    par.schedule(ea2, partition="A")
    par.schedule(eb2, partition="B")
    par.run()
    for (l, t, c) in la2 + lb2:
        if t != c:
            r.bad("partition_clock_equals_event_time", l, t, c)
    got = {"a": sorted((t, l) for (l, t, c) in la2 if t <= END * S), "b": sorted((t, l) for (l, t, c) in lb2 if t <= END * S)}
    for k in ("a", "b"):
        if got[k] != ref[k]:
            r.bad("partitioned_equals_sequential", k, {"sequential": ref[k], "partitioned": got[k], "window": window})
    order_b = [t for (l, t, c) in lb2]
    if any(x > y for x, y in zip(order_b, order_b[1:])):
        r.bad("partition_delivers_in_time_order", order_b)
    if any(l.startswith("msg") for (t, l) in ref["b"]):
        r.wit.add("cross_partition_message_delivered")
    if any(l.startswith("reply") for (t, l) in ref["a"]):
        r.wit.add("reply_delivered")
    if any(P["daemon"].values()) and not all(P["daemon"].values()):
        r.wit.add("daemon_and_primary_events_mixed")
    if any(t % (S // 2) == 0 and t > 0 for (t, l) in ref["b"]):
        r.wit.add("delivery_exactly_on_window_boundary")
    r.obs = {"ref": ref}
    return r


def independent(sym, tier):
    """No links: each partition behaves exactly like a stand-alone Simulation."""
    r = Result()
    END = 3
    P = {"ts": [sym.int("ts0", 0, END * S)], "tu": [sym.int("tu0", 0, END * S + 2), sym.int("tu1", 0, END * S + 2)],
         "lat": {0: 0}, "reply_lat": None}
    end = Instant.from_seconds(END)
    logs = []
    for which in range(2):
        la, lb = [], []
        a = Node("a", la, {})
        b = Node("b", lb, {})
        ea = [mk_event(P["ts"][0], "local_a", a)]
        eb = [mk_event(t, f"local{i}", b) for i, t in enumerate(P["tu"])]
        if which == 0:
            s1 = Simulation(entities=[a], end_time=end); s1.schedule(ea); s1.run()
            s2 = Simulation(entities=[b], end_time=end); s2.schedule(eb); s2.run()
        else:
            par = ParallelSimulation([SimulationPartition("A", entities=[a]), SimulationPartition("B", entities=[b])], end_time=end)
            par.schedule(ea, partition="A"); par.schedule(eb, partition="B")
            par.run()
        logs.append((la, lb))
    if logs[0] != logs[1]:
        r.bad("independent_partitions_equal_separate_simulations", logs[0], logs[1])
    if len(logs[0][1]) == 2:
        r.wit.add("two_local_deliveries")
    r.obs = {"b": logs[0][1]}
    return r


def _classify(clause, draws, obs):
    return None


MANIFEST = {
    "note": "ThreadPoolExecutor is replaced by a serial executor during symbolic execution (CrossHair traces one thread); replays use the real "
            "thread pool. Thread interleavings inside a window are outside the claim (partitions share no state by validate_partitions). "
            "Float window arithmetic is computed natively on concrete window sizes; min-latency validation floats are modelled as reals.",
}

HARNESSES = [
    H(name="c05_equivalence", fn=equivalence, shape="N", budget=lambda tier: 900.0 if tier == "quick" else 3000.0,
      cubes=lambda tier: [{"reply": x, "window": w, "daemon_send0": d, "daemon_local0": e} for x in range(2) for w in range(2) for d in range(2) for e in range(2)],
      require=lambda tier: ["cross_partition_message_delivered", "reply_delivered", "delivery_exactly_on_window_boundary", "daemon_and_primary_events_mixed"],
      classify=_classify,
      functions=["ParallelSimulation.__init__/_install_routers/schedule/run/_run_coordinated", "WindowedCoordinator.run/_run_partition_window/_exchange_events",
                 "make_event_router.route", "validate_partitions", "Simulation._run_window", "Simulation._execute_until"],
      bounds=lambda tier: {"partitions": 2, "send events": 1 if tier == "quick" else 2, "local events at receiver": 1 if tier == "quick" else 2, "local events at sender": 1,
                           "event times": "symbolic ns over [0, end]", "cross latency": "min_latency + symbolic extra in [0, 1 s]",
                           "daemon flags": "symbolic per pre-scheduled event", "reply (B->A)": "optional", "window": [1.0, 0.5], "min_latency_s": MINLAT, "end_time_s": 3 if tier == "quick" else 4},
      outside=["thread interleavings of the worker pool", "sampled link latencies / packet loss (PartitionLink.latency, packet_loss)",
               "more than 2 partitions", "sources inside partitions", "the first event later than end_time (delivered by the sequential fast loop; not compared)"]),
    H(name="c05_independent", fn=independent, shape="N", budget=lambda tier: 600.0,
      require=lambda tier: ["two_local_deliveries"],
      functions=["ParallelSimulation._run_independent", "Simulation.run"],
      bounds=lambda tier: {"partitions": 2, "events": 3, "times": "symbolic ns"}),
]
