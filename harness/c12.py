"""C12 — Paxos-family protocols decide at most one value per instance, and a proposed one.

Local lemmas on the real PaxosNode handlers from symbolic acceptor/proposer states with symbolic
message fields (ballots compared through the real Ballot); plus DistributedLock fencing tokens."""
from __future__ import annotations

import happysimulator.components.consensus.paxos as paxos_mod
from happysimulator.components.consensus.distributed_lock import DistributedLock
from happysimulator.components.consensus.paxos import Ballot, PaxosNode
from happysimulator.components.network.network import Network
from happysimulator.core.clock import Clock
from happysimulator.core.temporal import Instant

from vf.harness import H
from vf.sym import Result

NAMES = ["p0", "p1", "p2"]


class _Rng:
    def random(self):
        return 0.5


def _cluster():
    paxos_mod.random = _Rng()
    net = Network(name="net")
    clock = Clock(Instant(0))
    nodes = [PaxosNode(n, net) for n in NAMES]
    for nd in nodes:
        nd.set_peers(nodes)
        nd.set_clock(clock)
    net.set_clock(clock)
    return net, nodes


def _sym_ballot(sym, tag, lo=0, hi=3, allow_none=True):
    if allow_none and sym.bool(f"{tag}_none"):
        return None
    return Ballot(sym.int(f"{tag}_num", lo, hi), NAMES[sym.choice(f"{tag}_node", 3)])


def _out(events):
    return [e for e in (events or []) if e.context.get("metadata", {}).get("destination")]


# ------------------------------------------------------------------ P1/P3/P4: proposer
def proposer_lemma(sym, tier):
    """Proposer p0 runs propose(v)/start_phase1() for real, then receives promises from p1 and p2 with
    symbolic accepted (ballot, value) payloads, then Accepted messages.  Checked: every Accept ever sent
    for the ballot carries one value; that value is the accepted value of the highest accepted ballot
    among the promises that formed the quorum, else the proposer's own; the node decides only after a
    quorum of Accepted, with that value; the future resolves with it."""
    r = Result()
    net, nodes = _cluster()
    P, A, B = nodes
    # arbitrary prior acceptor state of the proposer itself
    prior = _sym_ballot(sym, "own_accepted", 0, 1)
    if prior is not None:
        P._accepted_ballot, P._accepted_value, P._promised_ballot = prior, "own-old", prior
    fut = P.propose("mine")
    b = P._current_ballot
    P.start_phase1()
    # optionally a competing proposer's higher Prepare reaches P before its own quorum completes
    preempted = sym.bool("preempted_by_higher_prepare")
    if preempted:
        hb = Ballot(b.number, "p2") if "p2" > b.node_id else Ballot(b.number + 1, "p2")
        P.handle_event(net.send(source=B, destination=P, event_type="PaxosPrepare",
                                payload={"ballot_number": hb.number, "ballot_node": hb.node_id}, daemon=True))
        r.wit.add("preempted")
    accepts = []           # values carried by Accept messages for ballot b
    order = [A, B] if sym.bool("A_first") else [B, A]
    quorum_info = []       # promises seen when phase 2 first started
    seen = []
    own = (prior.number, prior.node_id, "own-old") if prior is not None else None
    if own:
        seen.append(own)
    started = False
    for k, src in enumerate(order):
        ab = _sym_ballot(sym, f"prom{k}_accepted", 0, 1)
        if ab is not None and not (ab < b):
            return r        # an acceptor that promised b reports only ballots below b
        val = f"old-{src.name}" if ab is not None else None
        if ab is not None and prior is not None and ab == prior:
            val = "own-old"   # one ballot, one value (hypothesis on pre-states)
        if ab is not None and any(s[0] == ab.number and s[1] == ab.node_id and s[2] != val for s in seen):
            return r
        payload = {"ballot_number": b.number, "ballot_node": b.node_id, "from": src.name,
                   "accepted_ballot_number": ab.number if ab else None, "accepted_ballot_node": ab.node_id if ab else None,
                   "accepted_value": val}
        msg = net.send(source=src, destination=P, event_type="PaxosPromise", payload=payload, daemon=True)
        if ab is not None:
            seen.append((ab.number, ab.node_id, val))
        acc0, prom0 = P._accepted_ballot, P._promised_ballot
        out = _out(P.handle_event(msg))
        if P._accepted_ballot != acc0 and prom0 is not None and P._accepted_ballot < prom0:
            r.bad("node_never_accepts_a_ballot_below_its_promise", {"accepted": [P._accepted_ballot.number, P._accepted_ballot.node_id],
                                                                     "promised": [prom0.number, prom0.node_id]})
        new = [e.context["metadata"]["value"] for e in out if e.event_type == "PaxosAccept" and e.context["metadata"]["ballot_number"] == b.number]
        if new and not started:
            started = True
            quorum_info = list(seen)
        accepts.extend(new)
    if started:
        r.wit.add("phase2_started")
        if len(set(accepts)) > 1:
            r.bad("paxos_one_value_per_ballot", {"ballot": [b.number, b.node_id], "accept_values": accepts})
        best = None
        for s in quorum_info:
            if best is None or (s[0], s[1]) > (best[0], best[1]):
                best = s
        want = best[2] if best is not None else "mine"
        if accepts and accepts[0] != want:
            r.bad("paxos_value_is_highest_accepted_among_quorum_else_own", {"sent": accepts[0], "expected": want, "promises": quorum_info})
        if best is not None:
            r.wit.add("adopted_previously_accepted_value")
    if P.is_decided:
        r.bad("paxos_decide_needs_quorum_of_accepted", "decided after promises only")
    if started:
        for k, src in enumerate(order):
            msg = net.send(source=src, destination=P, event_type="PaxosAccepted",
                           payload={"ballot_number": b.number, "ballot_node": b.node_id, "from": src.name}, daemon=True)
            P.handle_event(msg)
            if P.is_decided and preempted and k == 0:
                r.bad("paxos_decide_needs_quorum_of_accepted", "a pre-empted proposer that did not accept its own ballot decided after one Accepted")
            if P.is_decided:
                r.wit.add("decided")
                if P.decided_value != accepts[0]:
                    r.bad("paxos_decided_value_is_the_accepted_one", P.decided_value, accepts[0])
                if fut.is_resolved and fut.value != P.decided_value:
                    r.bad("paxos_future_resolves_with_decided_value", fut.value, P.decided_value)
        # a later Decided message with another value must not change the decision
        if P.is_decided:
            v0 = P.decided_value
            P.handle_event(net.send(source=A, destination=P, event_type="PaxosDecided", payload={"value": "other"}, daemon=True))
            if P.decided_value != v0:
                r.bad("paxos_decision_never_changes", v0, P.decided_value)
    r.obs = {"accepts": accepts, "decided": P.decided_value}
    return r


# ------------------------------------------------------------------ P2: acceptor
def acceptor_lemma(sym, tier):
    r = Result()
    net, nodes = _cluster()
    A, P, Q = nodes
    promised = _sym_ballot(sym, "promised", 0, 2)
    accepted = _sym_ballot(sym, "accepted", 0, 2)
    if accepted is not None and (promised is None or accepted > promised):
        return r            # an acceptor has promised at least what it accepted
    A._promised_ballot = promised
    A._accepted_ballot = accepted
    A._accepted_value = "old" if accepted is not None else None
    for k in range(2):
        src = P if sym.bool(f"from_p{k}") else Q
        mb = Ballot(sym.int(f"m{k}_num", 0, 3), src.name)
        is_accept = sym.bool(f"m{k}_is_accept")
        before_p, before_a, before_v = A._promised_ballot, A._accepted_ballot, A._accepted_value
        if is_accept:
            msg = net.send(source=src, destination=A, event_type="PaxosAccept",
                           payload={"ballot_number": mb.number, "ballot_node": mb.node_id, "value": f"v{k}"}, daemon=True)
        else:
            msg = net.send(source=src, destination=A, event_type="PaxosPrepare",
                           payload={"ballot_number": mb.number, "ballot_node": mb.node_id}, daemon=True)
        out = _out(A.handle_event(msg))
        if before_p is not None and (A._promised_ballot is None or A._promised_ballot < before_p):
            r.bad("acceptor_promise_never_decreases", [before_p.number, before_p.node_id])
        # the invariant assumed of the pre-state is inductive: an acceptor has promised at least what it accepted
        if A._accepted_ballot is not None and (A._promised_ballot is None or A._promised_ballot < A._accepted_ballot):
            r.bad("acceptor_has_promised_at_least_what_it_accepted", {"step": k, "accept": is_accept, "ballot": [mb.number, mb.node_id]})
        if before_a is not None and (A._accepted_ballot is None or A._accepted_ballot < before_a):
            r.bad("accepted_ballot_never_decreases", {"step": k, "before": [before_a.number, before_a.node_id]})
        ok_to_take = before_p is None or not (mb < before_p)
        kinds = [e.event_type for e in out]
        if is_accept:
            if ("PaxosAccepted" in kinds) != ok_to_take:
                r.bad("acceptor_accepts_iff_ballot_at_least_promised", kinds)
            if ok_to_take:
                if A._accepted_ballot != mb or A._accepted_value != f"v{k}":
                    r.bad("acceptor_records_accepted_value")
                r.wit.add("accepted")
            elif (A._accepted_ballot, A._accepted_value) != (before_a, before_v):
                r.bad("acceptor_rejected_accept_changes_nothing")
        else:
            if ("PaxosPromise" in kinds) != ok_to_take:
                r.bad("acceptor_promises_iff_ballot_at_least_promised", kinds)
            for e in out:
                if e.event_type == "PaxosPromise":
                    md = e.context["metadata"]
                    rep = (md["accepted_ballot_number"], md["accepted_ballot_node"], md["accepted_value"])
                    have = (before_a.number, before_a.node_id, before_v) if before_a is not None else (None, None, None)
                    if rep != have:
                        r.bad("promise_reports_highest_accepted", rep, have)
                    r.wit.add("promised_with_accepted_value") if before_a is not None else None
            if (A._accepted_ballot, A._accepted_value) != (before_a, before_v):
                r.bad("prepare_does_not_change_accepted_value")
    r.obs = {"promised": None if A._promised_ballot is None else [A._promised_ballot.number, A._promised_ballot.node_id]}
    return r



# ------------------------------------------------------------------ Multi-Paxos / Flexible Paxos: leader change
def _tag(cmd):
    return cmd.get("value") if isinstance(cmd, dict) else cmd


def log_paxos_takeover(sym, tier):
    """Three MultiPaxosNode / FlexiblePaxosNode replicas, messages pumped between the real handlers over a
    solver-chosen set of working links: leader A gets command x accepted and committed for slot 1 with one
    quorum; then another node N runs phase 1 with a higher ballot over a (possibly different) quorum and
    gets its own command y through.  Every slot that is committed anywhere holds the same command
    everywhere it is committed, and the state machines apply the same commands in the same order."""
    from happysimulator.components.consensus.flexible_paxos import FlexiblePaxosNode
    from happysimulator.components.consensus.multi_paxos import MultiPaxosNode
    r = Result()
    proto = sym.choice("protocol", 2)
    cls = [MultiPaxosNode, FlexiblePaxosNode][proto]
    net = Network(name="net")
    clock = Clock(Instant(0))
    net.set_clock(clock)
    kw = {"phase1_quorum": 2, "phase2_quorum": 2} if proto == 1 else {}
    nodes = {n: cls(n, net, **kw) for n in ("a", "b", "c")}
    for nd in nodes.values():
        nd.set_peers(list(nodes.values()))
        nd.set_clock(clock)
    promises_with_x = []

    def pump(first, links):
        queue = list(first or [])
        steps = 0
        while queue and steps < 200:
            steps += 1
            e = queue.pop(0)
            md = e.context.get("metadata", {})
            dst, src = md.get("destination"), md.get("source")
            if dst is None:
                continue                      # timers are fired explicitly
            if (src, dst) not in links:
                continue                      # message lost on a broken link
            if e.event_type.endswith("Promise") and any(_tag(x.get("command")) == "x" for x in md.get("log_entries", [])):
                promises_with_x.append(dst)
            out = nodes[dst].handle_event(e)
            queue.extend(out or [])

    def both(x, ys):
        return {(x, y) for y in ys} | {(y, x) for y in ys}

    # ---- first leader
    q1 = [["b"], ["c"], ["b", "c"]][sym.choice("first_quorum_peers", 3)]
    fx = nodes["a"].submit({"op": "set", "key": "k", "value": "x"})
    pump(nodes["a"].start(), both("a", q1))
    a_committed = nodes["a"]._log.commit_index >= 1
    if a_committed:
        r.wit.add("first_leader_committed")
    # ---- second leader, higher ballot, its own quorum
    n2 = ["b", "c"][sym.choice("second_leader", 2)]
    others = [n for n in ("a", "b", "c") if n != n2]
    q2 = [[others[0]], [others[1]], others][sym.choice("second_quorum_peers", 3)]
    fy = nodes[n2].submit({"op": "set", "key": "k", "value": "y"})
    pump(nodes[n2].start(), both(n2, q2))
    if nodes[n2]._log.commit_index >= 1 and nodes[n2].is_leader:
        r.wit.add("second_leader_committed")
    committed = {}
    for nm, nd in nodes.items():
        for i in range(1, nd._log.commit_index + 1):
            ent = nd._log.get(i)
            committed.setdefault(i, {})[nm] = _tag(ent.command) if ent is not None else None
    for slot, by in committed.items():
        if len(set(by.values())) > 1:
            r.bad("one_value_per_instance", {"slot": slot, "committed": by, "protocol": cls.__name__, "first_quorum": ["a"] + q1, "second_leader": n2,
                                             "second_quorum": [n2] + q2, "promise_reported_x_to": promises_with_x,
                                             "second_leader_slot1": (_tag(nodes[n2]._log.get(1).command) if nodes[n2]._log.get(1) else None)})
    r.obs = {"committed": {str(k): v for k, v in committed.items()}, "protocol": cls.__name__}
    return r


def takeover_classify(clause, draws, obs):
    """Known finding: a new Multi-/Flexible-Paxos leader ignores the accepted log entries reported in the
    promises of its phase-1 quorum and proposes its own command for a slot that may already be chosen.
    Recognised only when a promise did report x to the second leader and its slot 1 is nevertheless not x."""
    import json
    if not clause.startswith("one_value_per_instance"):
        return None
    try:
        d = json.loads(clause.split(": ", 1)[1])
    except Exception:
        return None
    if d["second_leader"] in d["promise_reported_x_to"] and d["second_leader_slot1"] != "x" and d["slot"] == 1:
        return "new-leader-ignores-entries-reported-in-promises"
    return None


# ------------------------------------------------------------------ distributed lock
def lock_script(sym, tier):
    """Script of acquire / release / lease-expiry on one lock by 3 clients: at most one holder, every
    grant's fencing token is larger than all earlier ones, waiters are granted in arrival order."""
    r = Result()
    lk = DistributedLock("lock", lease_duration=10.0)
    lk.set_clock(Clock(Instant(0)))
    n = 5 if tier == "quick" else 6
    grants = []              # (token, holder)
    futures = []             # (client, future) not yet resolved when issued
    last_token = 0
    holder_tok = {}
    for s in range(n):
        op = sym.choice(f"op{s}", 3) if s > 0 else 0
        c = f"c{sym.choice(f'client{s}', 3)}"
        if op == 0:
            f = lk.acquire("L", c)
            futures.append((c, f))
        elif op == 1:
            tok = holder_tok.get(c)
            if tok is not None:
                lk.release("L", tok)
        else:
            ev = getattr(lk, "_pending_expiry", None)
            if ev is not None and not ev.cancelled:
                lk.handle_event(ev)
                r.wit.add("lease_expired")
        for (cl, f) in futures:
            if f.is_resolved and f.value is not None and (f.value.fencing_token, cl) not in grants:
                g = f.value
                if g.holder != cl:
                    r.bad("lock_grant_names_its_requester", g.holder, cl)
                if lk.get_holder("L") == cl and lk.get_fencing_token("L") == g.fencing_token:
                    pass
                if g.fencing_token > last_token:
                    last_token = g.fencing_token
                    grants.append((g.fencing_token, cl))
                    holder_tok[cl] = g.fencing_token
                elif g.fencing_token not in [t for t, _ in grants]:
                    r.bad("fencing_tokens_strictly_increase", g.fencing_token, last_token)
        h = lk.get_holder("L")
        if h is not None and lk.get_fencing_token("L") != max([t for t, _ in grants] or [0]):
            r.bad("current_holder_has_the_latest_token", lk.get_fencing_token("L"), grants)
    toks = [t for t, _ in grants]
    if toks != sorted(set(toks)):
        r.bad("fencing_tokens_strictly_increase", toks)
    if len(grants) >= 2:
        r.wit.add("two_grants")
    r.obs = {"grants": grants}
    return r


def classify(clause, draws, obs):
    return None


MANIFEST = {
    "note": "Agreement/validity of the protocols follow from the lemmas by the standard Paxos argument (quorum intersection), which is trusted, "
            "not solver output. Pre-state hypotheses (stated in the harness): an acceptor's accepted ballot <= its promised ballot; an acceptor "
            "answering Prepare(b) reports only ballots < b; one ballot carries one value. Flexible Paxos, Multi-Paxos and LeaderElection are not covered.",
}

HARNESSES = [
    H(name="c12_proposer_lemma", fn=proposer_lemma, shape="I", budget=lambda tier: 900.0,
      cubes=lambda tier: [{"own_accepted_none": a, "A_first": b, "preempted_by_higher_prepare": c} for a in range(2) for b in range(2) for c in range(2)],
      require=lambda tier: ["phase2_started", "adopted_previously_accepted_value", "decided", "preempted"], classify=classify,
      functions=["PaxosNode.propose/start_phase1/_handle_prepare_internal", "PaxosNode._handle_promise", "PaxosNode._start_phase2",
                 "PaxosNode._handle_accepted", "PaxosNode._decide", "PaxosNode._handle_decided", "Ballot ordering"],
      bounds=lambda tier: {"cluster": 3, "promises": "2 peers, symbolic accepted (ballot, value) payloads, either arrival order", "own prior accepted ballot": "symbolic"},
      outside=["Flexible Paxos quorum pairs", "Multi-Paxos slots and leader takeover", "LeaderElection strategies", "retry after Nack (PaxosRetry timing)",
               "end-to-end runs with competing proposers in the engine"]),
    H(name="c12_acceptor_lemma", fn=acceptor_lemma, shape="I", budget=lambda tier: 900.0,
      cubes=lambda tier: [{"promised_none": a, "m0_is_accept": b, "m1_is_accept": c} for a in range(2) for b in range(2) for c in range(2)],
      require=lambda tier: ["accepted", "promised_with_accepted_value"], classify=classify,
      functions=["PaxosNode._handle_prepare", "PaxosNode._handle_accept"],
      bounds=lambda tier: {"pre-state": "symbolic promised/accepted ballots", "messages": "2 Prepare/Accept with symbolic ballots from either peer"}),
    H(name="c12_log_paxos_takeover", fn=log_paxos_takeover, shape="S", budget=lambda tier: 600.0,
      cubes=lambda tier: [{"protocol": a, "second_leader": b} for a in range(2) for b in range(2)],
      require=lambda tier: ["first_leader_committed", "second_leader_committed"], classify=takeover_classify,
      functions=["MultiPaxosNode / FlexiblePaxosNode: submit/start/_begin_phase1/_handle_prepare/_handle_promise/_become_leader/_replicate_slot/_handle_accept/_handle_accepted"],
      bounds=lambda tier: {"replicas": 3, "leaders": "a, then b or c with a higher ballot", "quorums": "each leader reaches one or both of the other replicas (solver-chosen)", "commands": "one per leader, submitted before it starts phase 1"},
      outside=["heartbeat-driven lease expiry", "more than two leader changes", "Flexible Paxos with asymmetric quorum sizes", "LeaderElection"]),
    H(name="c12_lock_script", fn=lock_script, shape="S", budget=lambda tier: 900.0,
      cubes=lambda tier: [{"op1": a, "op2": b} for a in range(3) for b in range(3)],
      require=lambda tier: ["two_grants", "lease_expired"], classify=classify,
      functions=["DistributedLock.acquire/release/_grant_lock/_release_lock/_wake_next_waiter/_handle_lease_expiry"],
      bounds=lambda tier: {"ops": 5 if tier == "quick" else 6, "clients": 3, "locks": 1}),
]
