"""C20 — sketches keep their one-sided guarantees and merge like the union of their inputs.

Hash functions (sha256 / builtin hash behind a C boundary) are replaced, per instance,
by an *arbitrary function* chosen by the solver: H[(item, i)] is a fresh selector into a
table of positions, memoised, so a verdict holds for every hash function over the table
(adversarial collisions included).  Everything else is the real sketch code.
"""
from __future__ import annotations

import copy

from happysimulator.sketching.bloom_filter import BloomFilter
from happysimulator.sketching.count_min_sketch import CountMinSketch
from happysimulator.sketching.hyperloglog import HyperLogLog, _count_leading_zeros
from happysimulator.sketching.merkle_tree import MerkleTree
from happysimulator.sketching.reservoir import ReservoirSampler
from happysimulator.sketching.tdigest import TDigest
from happysimulator.sketching.topk import TopK

import happysimulator.sketching.merkle_tree as merkle_mod
from vf.harness import H
from vf.sym import Result

ITEMS = ["a", "b", "c"]


class SymHash:
    """An arbitrary function (item, i) -> table entry, fixed for the whole path."""

    def __init__(self, sym, tag, table):
        self.sym, self.tag, self.table, self.memo = sym, tag, table, {}

    def __call__(self, item, i=0):
        k = (item, i)
        if k not in self.memo:
            self.memo[k] = self.table[self.sym.choice(f"{self.tag}_{item}_{i}", len(self.table))]
        return self.memo[k]


# ------------------------------------------------------------------ Bloom
BLOOM_POS = [0, 63, 64, 69]      # both 64-bit words of a 70-bit filter, word boundaries


def bloom(sym, tier):
    r = Result()
    k = 2
    h = SymHash(sym, "h", BLOOM_POS)
    fa, fb, fall = (BloomFilter(size_bits=70, num_hashes=k, seed=1) for _ in range(3))
    for f in (fa, fb, fall):
        f._hash = h
    n = 2 if tier == "quick" else 3
    stream = []
    for s in range(n):
        it = ITEMS[s] if s < 2 else ITEMS[sym.choice("item2", 3)]
        to_a = sym.bool(f"to_a{s}")
        (fa if to_a else fb).add(it)
        fall.add(it)
        stream.append((it, to_a))
    for it, to_a in stream:
        if not (fa if to_a else fb).contains(it) or not fall.contains(it):
            r.bad("bloom_no_false_negative", it)
    merged = BloomFilter(size_bits=70, num_hashes=k, seed=1)
    merged._hash = h
    snap_a, snap_b = copy.deepcopy(fa._bits), copy.deepcopy(fb._bits)
    merged.merge(fa)
    merged.merge(fb)
    if fa._bits != snap_a or fb._bits != snap_b:
        r.bad("merge_leaves_its_argument_unchanged", "bloom", stream)
    if merged._bits != fall._bits:
        r.bad("bloom_merge_equals_concatenation", merged._bits, fall._bits, stream)
    for it, _ in stream:
        if not merged.contains(it):
            r.bad("bloom_merged_contains_inserted", it)
    if merged._bits_set != sum(bin(w).count("1") for w in fall._bits):
        r.bad("bloom_merge_bit_count", merged._bits_set)
    if fa._bits[1] and fb._bits[0]:
        r.wit.add("both_words_used")
    if any(h.memo[(ITEMS[0], i)] == h.memo[(ITEMS[1], j)] for i in range(k) for j in range(k)):
        r.wit.add("collision")
    r.obs = {"bits": fall._bits}
    return r


# ------------------------------------------------------------------ Count-Min
def cms(sym, tier):
    r = Result()
    width, depth = 2, 2
    h = SymHash(sym, "h", list(range(width)))
    a, b, allk = (CountMinSketch(width=width, depth=depth, seed=3) for _ in range(3))
    for f in (a, b, allk):
        f._hash = h
    n = 3 if tier == "quick" else 4
    true = {i: 0 for i in ITEMS}
    for s in range(n):
        it = ITEMS[sym.choice(f"item{s}", 3)] if s > 0 else ITEMS[0]
        c = sym.int(f"count{s}", 0, 5)
        to_a = sym.bool(f"to_a{s}") if s > 0 else True
        (a if to_a else b).add(it, c)
        allk.add(it, c)
        true[it] = true[it] + c
    for it in ITEMS:
        if allk.estimate(it) < true[it]:
            r.bad("cms_never_underestimates", it, allk.estimate(it), true[it])
    m = CountMinSketch(width=width, depth=depth, seed=3)
    m._hash = h
    snap_a, snap_b = copy.deepcopy(a._counters), copy.deepcopy(b._counters)
    m.merge(a)
    m.merge(b)
    if a._counters != snap_a or b._counters != snap_b:
        r.bad("merge_leaves_its_argument_unchanged", "cms", {"a_before": snap_a, "a_after": a._counters, "b_before": snap_b, "b_after": b._counters})
    if m._counters != allk._counters or m.item_count != allk.item_count:
        r.bad("cms_merge_equals_concatenation", m._counters, allk._counters)
    if len({(h.memo.get((i, 0)), h.memo.get((i, 1))) for i in ITEMS if (i, 0) in h.memo}) < len([i for i in ITEMS if (i, 0) in h.memo]):
        r.wit.add("full_collision")
    r.obs = {"counters": allk._counters}
    return r


# ------------------------------------------------------------------ TopK (space saving)
def topk(sym, tier):
    r = Result()
    k = 1 + sym.choice("k_minus_1", 2)
    n = 4 if tier == "quick" else 5
    t = TopK(k=k)
    true = {i: 0 for i in ITEMS}
    total = 0
    for s in range(n):
        it = ITEMS[sym.choice(f"item{s}", 3)] if s > 0 else ITEMS[0]
        c = sym.int(f"count{s}", 1, 4)
        t.add(it, c)
        true[it] = true[it] + c
        total = total + c
        for i in ITEMS:
            if i in t:
                e = t.estimate_with_error(i)
                if not (true[i] <= e.count):
                    r.bad("topk_estimate_at_least_true", i, e.count, true[i])
                if not (e.count <= true[i] + e.error):
                    r.bad("topk_overestimate_within_error", i, e.count, true[i], e.error)
            if true[i] * k > total and i not in t:
                r.bad("topk_tracks_heavy_hitters", i, true[i], total, k)
        if t.tracked_count > k:
            r.bad("topk_tracks_at_most_k", t.tracked_count)
        if t.item_count != total:
            r.bad("topk_total", t.item_count, total)
    if any(true[i] > 0 and i not in t for i in ITEMS):
        r.wit.add("eviction")
    r.obs = {"k": k, "top": [[e.item, e.count, e.error] for e in t.top()]}
    return r


# ------------------------------------------------------------------ HyperLogLog
def _hll_hash(idx, run):          # register index (top 4 bits) and run length of the remaining 60 bits
    rest = 0 if run == 61 else (1 << (60 - run))
    return (idx << 60) | rest


HLL_TABLE = [_hll_hash(i, rl) for i in (0, 15) for rl in (1, 2, 61)] + [_hll_hash(7, 60) | 1]


def hll(sym, tier):
    r = Result()
    h = SymHash(sym, "h", HLL_TABLE)
    a, b, allk = (HyperLogLog(precision=4, seed=5) for _ in range(3))
    for f in (a, b, allk):
        f._hash = lambda item: h(item, 0)
    n = 3
    for s in range(n):
        it = ITEMS[s]
        to_a = sym.bool(f"to_a{s}") if s > 0 else True
        (a if to_a else b).add(it)
        allk.add(it)
    m = HyperLogLog(precision=4, seed=5)
    snap_a, snap_b = copy.deepcopy(a._registers), copy.deepcopy(b._registers)
    m.merge(a)
    m.merge(b)
    if list(a._registers) != list(snap_a) or list(b._registers) != list(snap_b):
        r.bad("merge_leaves_its_argument_unchanged", "hll")
    if m._registers != allk._registers:
        r.bad("hll_merge_equals_concatenation", m._registers, allk._registers)
    if m.cardinality() != allk.cardinality():
        r.bad("hll_merge_cardinality", m.cardinality(), allk.cardinality())
    for it in ITEMS:
        hv = h(it, 0)
        idx, rest = hv >> 60, hv & ((1 << 60) - 1)
        want = (60 - rest.bit_length()) + 1
        if allk._registers[idx] < want:
            r.bad("hll_register_records_run", it, idx, allk._registers[idx], want)
    if len({h(i, 0) >> 60 for i in ITEMS}) < 3:
        r.wit.add("shared_register")
    r.obs = {"registers": allk._registers}
    return r


def clz(sym, tier):
    """_count_leading_zeros against the bit-length definition (bounded loop, 8 bits)."""
    r = Result()
    bits = 8
    v = sym.int("value", 0, (1 << bits) - 1)
    got = _count_leading_zeros(v, bits)
    # reference without loops over symbolic shifts: compare against thresholds
    want = bits
    for i in range(bits):
        if v >= (1 << i):
            want = bits - 1 - i
    if got != want:
        r.bad("clz_matches_definition", v, got, want)
    if got == 0:
        r.wit.add("top_bit_set")
    r.obs = {"clz": got}
    return r


# ------------------------------------------------------------------ t-digest
QGRID = [0.0, 0.1, 0.25, 0.5, 0.75, 0.9, 1.0]


def tdigest(sym, tier):
    """quantile() is non-decreasing in q and within [min, max]; values are symbolic
    integers (exact as floats), compression small so centroids really merge."""
    r = Result()
    n = 3 if tier == "quick" else 4
    t = TDigest(compression=sym.pick("compression", [1.0, 2.0]))
    vals = []
    for s in range(n):
        v = sym.int(f"v{s}", 0, 6)
        vals.append(v)
        t.add(float(v))
    lo, hi = min(vals), max(vals)
    prev = None
    qs = []
    for q in QGRID:
        x = t.quantile(q)
        qs.append(x)
        if x < lo or x > hi:
            r.bad("tdigest_quantile_within_min_max", q, x, lo, hi)
        if prev is not None and x < prev:
            r.bad("tdigest_quantile_monotone", q, prev, x)
        prev = x
    if t.centroid_count < n:
        r.wit.add("centroids_merged")
    r.obs = {"centroids": t.centroid_count}
    return r


# ------------------------------------------------------------------ reservoir
class _SymRng:
    def __init__(self, sym):
        self.sym = sym
        self.n = 0

    def randint(self, a, b):
        self.n += 1
        return self.sym.int(f"randint{self.n}", a, b)

    def random(self):
        self.n += 1
        return 0.0 if self.sym.bool(f"random_low{self.n}") else 0.9999999


def reservoir(sym, tier):
    r = Result()
    k = 1 + sym.choice("k_minus_1", 2)
    n = 4 if tier == "quick" else 5
    rs = ReservoirSampler(size=k, seed=1)
    rs._rng = _SymRng(sym)
    stream = []
    for s in range(n):
        stream.append(s)
        rs.add(s)
        smp = rs.sample()
        if len(smp) != min(k, len(stream)):
            r.bad("reservoir_size_is_min_k_n", len(smp), k, len(stream))
        for x in smp:
            if x not in stream:
                r.bad("reservoir_items_from_stream", x)
        if len(set(smp)) != len(smp):
            r.bad("reservoir_no_duplicates_of_distinct_stream", smp)
    if rs.item_count != n:
        r.bad("reservoir_count", rs.item_count)
    if any(x >= k for x in rs.sample()):
        r.wit.add("replacement")
    r.obs = {"k": k, "sample": rs.sample()}
    return r


# ------------------------------------------------------------------ Merkle tree
KEYS = ["k1", "k2", "k3", "k4"]


def merkle(sym, tier):
    """diff(a, b) is empty iff the maps are equal; otherwise its ranges cover every key
    whose value differs or that exists in one map only.  Leaf/inner hashes are replaced
    by an injective structural hash (assumption: sha256 is collision-free)."""
    r = Result()
    old = (merkle_mod._hash_leaf, merkle_mod._hash_children)
    merkle_mod._hash_leaf = lambda key, value: ("L", key, value)
    merkle_mod._hash_children = lambda lh, rh: ("N", lh, rh)
    try:
        nk = 3 if tier == "quick" else 4
        A, B = {}, {}
        for k in KEYS[:nk]:
            if sym.bool(f"a_has_{k}"):
                A[k] = sym.int(f"a_{k}", 0, 2)
            if sym.bool(f"b_has_{k}"):
                B[k] = sym.int(f"b_{k}", 0, 2)
        ta, tb = MerkleTree.build(A), MerkleTree.build(B)
        d = ta.diff(tb)
        differing = [k for k in KEYS[:nk] if (k in A) != (k in B) or (k in A and A[k] != B[k])]
        if (len(d) == 0) != (len(differing) == 0):
            r.bad("merkle_diff_empty_iff_equal", differing, [[x.start, x.end] for x in d])
        for k in differing:
            if not any(x.contains(k) for x in d):
                r.bad("merkle_diff_covers_differing_key", k, [[x.start, x.end] for x in d])
        if differing and len(A) != len(B):
            r.wit.add("different_shapes")
        if differing and len(A) == len(B):
            r.wit.add("same_shape_value_differs")
        r.obs = {"differing": differing, "ranges": [[x.start, x.end] for x in d]}
    finally:
        merkle_mod._hash_leaf, merkle_mod._hash_children = old
    return r


HARNESSES = [
    H(name="c20_bloom", fn=bloom, shape="S", budget=lambda tier: 400.0,
      cubes=lambda tier: [{"h_a_0": x, "h_a_1": y} for x in range(4) for y in range(4)],
      require=lambda tier: ["both_words_used", "collision"],
      functions=["BloomFilter.add/contains/merge/_set_bit/_get_bit"],
      bounds=lambda tier: {"size_bits": 70, "num_hashes": 2, "hash positions": BLOOM_POS, "stream": "2 items" if tier == "quick" else "3 items (third may repeat)",
                           "split": "every assignment of stream items to the two merged halves"},
      assumptions=["BloomFilter._hash replaced by an arbitrary function into the position table (sha256 behind a C boundary)"],
      outside=["filter sizes / hash counts other than 70 bits x 2", "the false-positive rate"]),
    H(name="c20_cms", fn=cms, shape="S", budget=lambda tier: 400.0 if tier == "quick" else 2400.0,
      cubes=lambda tier: [dict({"h_a_0": x, "h_a_1": y, "item1": i}, **({} if tier == "quick" else {"item2": j, "to_a1": t}))
                          for x in range(2) for y in range(2) for i in range(3) for j in ((0,) if tier == "quick" else range(3)) for t in ((0,) if tier == "quick" else range(2))],
      require=lambda tier: ["full_collision"],
      functions=["CountMinSketch.add/estimate/merge"],
      bounds=lambda tier: {"width": 2, "depth": 2, "adds": 3 if tier == "quick" else 4, "counts": "symbolic [0,5]"},
      assumptions=["CountMinSketch._hash replaced by an arbitrary function into range(width)"],
      outside=["the (epsilon, delta) accuracy guarantee", "other dimensions"]),
    H(name="c20_topk", fn=topk, shape="S", budget=lambda tier: 400.0,
      cubes=lambda tier: [{"k_minus_1": k, "item1": i, "item2": j} for k in range(2) for i in range(3) for j in range(3)],
      require=lambda tier: ["eviction"],
      functions=["TopK.add/estimate_with_error/__contains__/top"],
      bounds=lambda tier: {"k": [1, 2], "adds": 4 if tier == "quick" else 5, "items": 3, "weights": "symbolic [1,4]"},
      outside=["TopK.merge (the statement lists merging only for Bloom, Count-Min, HyperLogLog)"]),
    H(name="c20_hll", fn=hll, shape="S", budget=lambda tier: 400.0,
      cubes=lambda tier: [{"h_a_0": x} for x in range(len(HLL_TABLE))],
      require=lambda tier: ["shared_register"],
      functions=["HyperLogLog.add/merge/cardinality", "_count_leading_zeros"],
      bounds=lambda tier: {"precision": 4, "hash values": "7 values covering registers 0/7/15 and run lengths 1,2,60,61", "items": 3},
      assumptions=["HyperLogLog._hash replaced by an arbitrary function into the value table"]),
    H(name="c20_clz", fn=clz, shape="K", budget=lambda tier: 300.0, require=lambda tier: ["top_bit_set"],
      functions=["_count_leading_zeros"], bounds=lambda tier: {"bits": 8, "value": "symbolic [0,255]"}),
    H(name="c20_tdigest", fn=tdigest, shape="S", budget=lambda tier: 400.0,
      cubes=lambda tier: [{"compression": c} for c in range(2)],
      require=lambda tier: ["centroids_merged"],
      functions=["TDigest.add/_flush/_compress/quantile", "_Centroid.merge"],
      bounds=lambda tier: {"values": "%d symbolic integers in [0,6]" % (3 if tier == "quick" else 4), "compression": [1.0, 2.0], "q grid": QGRID},
      assumptions=["float arithmetic on symbolic values is modelled over the reals (CrossHair RealBasedSymbolicFloat); IEEE rounding outside the claim"],
      outside=["IEEE-754 rounding in centroid means / interpolation", "weights other than 1", "compression >= 3"]),
    H(name="c20_reservoir", fn=reservoir, shape="S", budget=lambda tier: 400.0,
      cubes=lambda tier: [{"k_minus_1": k} for k in range(2)],
      require=lambda tier: ["replacement"],
      functions=["ReservoirSampler.add/_add_one/sample"],
      bounds=lambda tier: {"k": [1, 2], "stream": 4 if tier == "quick" else 5},
      assumptions=["ReservoirSampler._rng replaced by a source of arbitrary draws (every randint outcome explored)"],
      outside=["ReservoirSampler.merge (samples with replacement; not judged)", "uniformity of the sample"]),
    H(name="c20_merkle", fn=merkle, shape="I", budget=lambda tier: 400.0,
      cubes=lambda tier: [{"a_has_k1": x, "b_has_k1": y, "a_has_k2": z} for x in range(2) for y in range(2) for z in range(2)],
      require=lambda tier: ["different_shapes", "same_shape_value_differs"],
      functions=["MerkleTree.build/diff", "_build_tree", "_diff_nodes", "KeyRange.contains"],
      bounds=lambda tier: {"keys": 3 if tier == "quick" else 4, "membership": "symbolic per map", "values": "symbolic [0,2]"},
      assumptions=["merkle_tree._hash_leaf/_hash_children replaced by an injective structural hash (sha256 assumed collision-free)"]),
]
