"""C11 — Raft: one leader per term, matching logs, durable commits, identical applies.

Whole-history exploration of a cluster is out of reach for path-by-path symbolic execution, so the
property is decided as local lemmas on the real handlers, started from *symbolic* node states that
satisfy a stated reachable-state predicate, with symbolic message fields.  Messages between nodes are
produced by the real sender-side methods and handed to the real receiver-side handlers."""
from __future__ import annotations

import happysimulator.components.consensus.raft as raft_mod
from happysimulator.components.consensus.log import LogEntry
from happysimulator.components.consensus.raft import RaftNode, RaftState
from happysimulator.components.network.network import Network
from happysimulator.core.clock import Clock
from happysimulator.core.temporal import Instant

from vf.harness import H
from vf.sym import Result

NAMES = ["n0", "n1", "n2"]
STATES = [RaftState.FOLLOWER, RaftState.CANDIDATE, RaftState.LEADER]


class _Rng:
    def uniform(self, a, b):
        return (a + b) / 2.0


class _Recorder:
    """State machine that records applied commands."""

    def __init__(self):
        self.applied = []

    def apply(self, command):
        self.applied.append(command)
        return command


def _cluster():
    raft_mod.random = _Rng()
    net = Network(name="net")
    clock = Clock(Instant(0))
    nodes = [RaftNode(n, net, state_machine=_Recorder()) for n in NAMES]
    for nd in nodes:
        nd.set_peers(nodes)
        nd.set_clock(clock)
    net.set_clock(clock)
    return net, nodes


def _sym_log(sym, node, tag, maxlen, max_term):
    """Arbitrary log: length <= maxlen, terms non-decreasing in [1, max_term]."""
    n = sym.choice(f"{tag}_len", maxlen + 1)
    prev = 1
    for i in range(n):
        t = sym.int(f"{tag}_t{i + 1}", 1, 3)
        if t < prev or t > max_term:
            return None
        prev = t
        node._log._entries.append(LogEntry(index=i + 1, term=t, command=f"{tag}:{i + 1}:{0}"))
    return n


def _deliver(dst, msg):
    """Hand a message produced by Network.send() to the destination's handler."""
    out = dst.handle_event(msg)
    return [e for e in (out or []) if e.event_type.startswith("Raft") and e.context["metadata"].get("destination")]


# ------------------------------------------------------------------ L1: one vote per term, term monotone
MSG = ["RaftRequestVote", "RaftAppendEntries", "RaftVoteResponse", "RaftAppendEntriesResponse"]


def vote_lemma(sym, tier):
    """From any state satisfying R, after any two messages of any type with symbolic fields, node n0 has
    granted its vote to at most one candidate per term (its own candidacy counts) and its term never
    decreased."""
    r = Result()
    net, nodes = _cluster()
    me = nodes[0]
    term = sym.int("term", 0, 2)
    state = STATES[sym.choice("state", 3)]
    vf = sym.choice("voted_for", 4)            # 0 none, 1..3 = n0..n2
    if state != RaftState.FOLLOWER and (term < 1 or vf != 1):
        return r                                # R: a candidate/leader has term >= 1 and voted for itself
    if term == 0 and vf != 0:
        return r                                # R: nobody votes in term 0
    me._current_term = term
    me._state = state
    me._voted_for = None if vf == 0 else NAMES[vf - 1]
    if state != RaftState.FOLLOWER:
        me._votes_received_set = {me.name}
    n = _sym_log(sym, me, "log", 1, term if term > 0 else 1)
    if n is None or (n and term == 0):
        return r
    grants = {}                                 # term -> set of candidates granted
    if me._voted_for is not None:
        grants.setdefault(term, set()).add(me._voted_for)
    last_term = term
    for k in range(2):
        kind = MSG[sym.choice(f"msg{k}", 4)]
        src = nodes[1 + sym.choice(f"from{k}", 2)]
        mt = sym.int(f"mterm{k}", 0, 3)
        if kind == "RaftRequestVote":
            payload = {"term": mt, "candidate_id": src.name, "last_log_index": sym.int(f"lli{k}", 0, 1), "last_log_term": sym.int(f"llt{k}", 0, 2)}
        elif kind == "RaftAppendEntries":
            payload = {"term": mt, "leader_id": src.name, "prev_log_index": 0, "prev_log_term": 0, "entries": [], "leader_commit": 0}
        elif kind == "RaftVoteResponse":
            payload = {"term": mt, "vote_granted": sym.bool(f"granted{k}"), "from": src.name}
        else:
            payload = {"term": mt, "success": sym.bool(f"success{k}"), "from": src.name, "match_index": 0}
        msg = net.send(source=src, destination=me, event_type=kind, payload=payload, daemon=True)
        out = _deliver(me, msg)
        for e in out:
            md = e.context["metadata"]
            if e.event_type == "RaftVoteResponse" and md.get("vote_granted"):
                grants.setdefault(md["term"], set()).add(md["destination"])
        if me._state != RaftState.FOLLOWER and me._voted_for is not None:
            grants.setdefault(me._current_term, set()).add(me._voted_for)
        if me._current_term < last_term:
            r.bad("raft_term_never_decreases", last_term, me._current_term)
        last_term = me._current_term
        # R is inductive over message handling
        if me._state != RaftState.FOLLOWER and (me._current_term < 1 or me._voted_for != me.name):
            r.bad("raft_candidate_or_leader_has_voted_for_itself", {"state": me._state.name, "term": me._current_term, "voted_for": me._voted_for, "after": kind})
        if me._log.last_index and me._log.last_term > me._current_term:
            r.bad("raft_log_terms_never_exceed_current_term", me._log.last_term, me._current_term)
    for t, who in grants.items():
        if len(who) > 1:
            r.bad("raft_one_vote_per_term", {"term": t, "granted_to": sorted(who)})
    if any(len(w) == 1 for w in grants.values()):
        r.wit.add("vote_granted")
    r.obs = {"grants": {str(t): sorted(w) for t, w in grants.items()}, "term": me._current_term}
    return r


# ------------------------------------------------------------------ L4/L5: replication step and commit safety
def replication_lemma(sym, tier):
    """Leader L (n0) and followers F (n1), G (n2) with symbolic logs under Log Matching.  L sends
    AppendEntries with a symbolic next_index[F]; F handles it; L handles the response (and advances its
    commit index).  Checked: leader append-only; Log Matching still holds; the match_index L records for
    F is an index up to which F's log equals L's; every index L marks committed is held, with the same
    term, by a quorum of the real logs; nodes apply in order, without gaps, the same commands."""
    r = Result()
    net, nodes = _cluster()
    L, F, G = nodes
    term = sym.int("term", 1, 3)
    nl = _sym_log(sym, L, "L", 2 if tier == "quick" else 3, term)
    if nl is None:
        return r
    L._current_term = term
    L._state = RaftState.LEADER
    L._voted_for = L.name
    L._leader = L.name
    # follower logs: a common prefix with L (Log Matching) followed by an arbitrary stale tail from older terms
    for node, tag in ((F, "F"), (G, "G")):
        common = sym.choice(f"{tag}_common", nl + 1)
        for i in range(common):
            e = L._log._entries[i]
            node._log._entries.append(LogEntry(index=i + 1, term=e.term, command=e.command))
        tail = sym.choice(f"{tag}_stale_tail", 2)
        if tail:
            tt = sym.int(f"{tag}_tail_term", 1, 3)
            if tt >= term or (common and tt < node._log._entries[-1].term):
                return r               # a stale tail comes from an older term's leader
            if common < nl and L._log._entries[common].term == tt:
                return r               # Log Matching: same index+term would mean same entry
            node._log._entries.append(LogEntry(index=common + 1, term=tt, command=f"{tag}:stale"))
        node._current_term = sym.int(f"{tag}_term", 0, 3)
        if node._current_term > term or (node._log._entries and node._log.last_term > node._current_term):
            return r
    L._next_index = {F.name: sym.int("next_F", 1, nl + 1), G.name: nl + 1}
    # what L believes about G must be true (inductive hypothesis on match_index)
    mg = sym.int("match_G", 0, nl)
    if any(i >= G._log.last_index or G._log._entries[i].term != L._log._entries[i].term for i in range(mg)):
        return r
    L._match_index = {F.name: 0, G.name: mg}
    ci = sym.int("L_commit", 0, nl)
    # committed prefix is on a quorum (hypothesis): with 3 nodes, L plus one follower
    def holds(node, i):
        return i <= node._log.last_index and i <= L._log.last_index and node._log._entries[i - 1].term == L._log._entries[i - 1].term
    if any(not (holds(F, i) or holds(G, i)) for i in range(1, ci + 1)):
        return r
    L._log.commit_index = ci
    L._last_applied = ci
    for i in range(ci):
        L._state_machine.applied.append(L._log._entries[i].command)
    before = [(e.index, e.term, e.command) for e in L._log._entries]

    msgs = [m for m in L._send_append_entries() if m.context["metadata"]["destination"] == F.name]
    resp = _deliver(F, msgs[0])
    # a client command may reach the leader while the AppendEntries round trip is in flight
    submit_between = sym.bool("client_submit_while_in_flight")
    if submit_between:
        L.submit("L:client")
        r.wit.add("submit_while_append_in_flight")
    for e in resp:
        if e.event_type == "RaftAppendEntriesResponse":
            _deliver(L, e)
    after = [(e.index, e.term, e.command) for e in L._log._entries]
    if after[: len(before)] != before:
        r.bad("raft_leader_append_only", before, after)
    # Log Matching between L and F
    for i in range(min(L._log.last_index, F._log.last_index)):
        a, b = L._log._entries[i], F._log._entries[i]
        if a.term == b.term and any(L._log._entries[j].term != F._log._entries[j].term or L._log._entries[j].command != F._log._entries[j].command
                                     for j in range(i + 1)):
            r.bad("raft_log_matching", i + 1)
    if L._state == RaftState.LEADER:
        m = L._match_index.get(F.name, 0)
        if m > 0:
            r.wit.add("match_index_advanced")
        for i in range(1, m + 1):
            if not holds(F, i):
                r.bad("raft_match_index_is_a_replicated_prefix", {"match_index": m, "index": i,
                      "leader_log": [e.term for e in L._log._entries], "follower_log": [e.term for e in F._log._entries]})
                break
        for i in range(1, L._log.commit_index + 1):
            cnt = 1 + (1 if holds(F, i) else 0) + (1 if holds(G, i) else 0)
            if cnt < 2:
                r.bad("raft_committed_entry_is_on_a_quorum", {"index": i, "commit_index": L._log.commit_index,
                      "leader_log": [e.term for e in L._log._entries], "F": [e.term for e in F._log._entries], "G": [e.term for e in G._log._entries]})
                break
        if L._log.commit_index > ci:
            r.wit.add("commit_advanced")
            if L._log._entries[L._log.commit_index - 1].term != term:
                r.bad("raft_commits_only_current_term_entries_directly", {"commit_index": L._log.commit_index, "term": term,
                      "leader_log": [e.term for e in L._log._entries], "match_index_F": L._match_index.get(F.name)})
    for node in (L, F):
        want = [e.command for e in node._log._entries[: node._last_applied]]
        got = node._state_machine.applied
        if got != want[len(want) - len(got):] and got != want:
            r.bad("raft_applies_in_log_order_without_gaps", node.name, got, want)
    if F._log.last_index > 0 and F._log.commit_index > 0:
        r.wit.add("follower_committed")
    r.obs = {"L": [e.term for e in L._log._entries], "F": [e.term for e in F._log._entries], "commit": L._log.commit_index}
    return r


def classify(clause, draws, obs):
    return None


MANIFEST = {
    "note": "Global Raft statements follow from the lemmas by the standard argument (quorum intersection); that composition is pen-and-paper and "
            "trusted, not solver output. Reachable-state predicate R (stated in the harness) is assumed for pre-states: term>=0; candidate/leader "
            "=> term>=1 and voted for itself; log terms non-decreasing and <= current term; Log Matching between leader and followers; the "
            "leader's match_index/commit_index hypotheses are true of the real follower logs. random.uniform is replaced by its midpoint.",
}

HARNESSES = [
    H(name="c11_vote_lemma", fn=vote_lemma, shape="I", budget=lambda tier: 900.0 if tier == "quick" else 3000.0,
      cubes=lambda tier: [{"state": s, "msg0": a, "msg1": b} for s in range(3) for a in range(4) for b in range(4)],
      require=lambda tier: ["vote_granted"], classify=classify,
      functions=["RaftNode._handle_request_vote", "RaftNode._handle_append_entries", "RaftNode._handle_vote_response",
                 "RaftNode._handle_append_entries_response", "RaftNode._step_down", "RaftNode._become_leader", "Network.send"],
      bounds=lambda tier: {"messages": 2, "terms": "symbolic [0,3]", "pre-state": "symbolic (term, role, voted_for, log <= 1 entry)", "cluster": 3},
      outside=["sequences longer than 2 messages from one pre-state (covered inductively if R is inductive)", "5-node clusters"]),
    H(name="c11_replication_lemma", fn=replication_lemma, shape="I", budget=lambda tier: 900.0 if tier == "quick" else 3000.0,
      cubes=lambda tier: [{"L_len": a, "F_common": b, "F_stale_tail": c} for a in range(1, 3 if tier == "quick" else 4) for b in range(a + 1) for c in range(2)],
      require=lambda tier: ["match_index_advanced", "commit_advanced", "follower_committed", "submit_while_append_in_flight"], classify=classify,
      functions=["RaftNode._send_append_entries", "RaftNode._handle_append_entries", "RaftNode._handle_append_entries_response",
                 "RaftNode._try_advance_commit", "RaftNode._apply_committed", "Log.append/truncate_from/advance_commit/entries_after"],
      bounds=lambda tier: {"leader log": "<= %d entries, symbolic non-decreasing terms" % (2 if tier == "quick" else 3), "follower logs": "common prefix + optional stale entry of an older term",
                           "next_index[F]": "symbolic", "match_index[G], commit_index": "symbolic, true of the real logs"},
      outside=["message loss / reordering of several in-flight AppendEntries for one follower", "client futures across leader changes", "cluster runs in the engine (election timing)"]),
]


# ------------------------------------------------------------------ stale (overtaken) AppendEntries
def stale_append_lemma(sym, tier):
    """Follower F already holds a prefix of the current leader's log (some of it committed).  An OLDER
    AppendEntries of the same leader and term (shorter: it was sent before the newer entries existed and was
    overtaken on the network) arrives now.  F must not lose entries that match the leader's log, and its
    commit index / applied prefix must not move backwards."""
    r = Result()
    net, nodes = _cluster()
    L, F, G = nodes
    term = sym.int("term", 1, 2)
    nl = _sym_log(sym, L, "L", 3, term)
    if nl is None or nl < 2:
        return r
    L._current_term = term
    L._state = RaftState.LEADER
    L._voted_for = L.name
    fl = 1 + sym.choice("F_len_minus_1", nl)            # F matches L up to fl
    for i in range(fl):
        e = L._log._entries[i]
        F._log._entries.append(LogEntry(index=i + 1, term=e.term, command=e.command))
    F._current_term = term
    F._leader = L.name
    fc = sym.int("F_commit", 0, fl)
    F._log.commit_index = fc
    F._last_applied = fc
    for i in range(fc):
        F._state_machine.applied.append(F._log._entries[i].command)
    # the stale request: prev in [0, fl-1], carrying m >= 1 entries that end strictly before fl
    prev = sym.int("stale_prev_index", 0, fl - 1)
    m = sym.int("stale_entry_count", 1, 3)
    if prev + m >= fl:
        return r
    entries = [{"index": e.index, "term": e.term, "command": e.command} for e in L._log._entries[prev:prev + m]]
    prev_term = L._log._entries[prev - 1].term if prev > 0 else 0
    before = [(e.index, e.term, e.command) for e in F._log._entries]
    lc = sym.int("stale_leader_commit", 0, 3)
    if lc > prev + m:
        return r
    msg = net.send(source=L, destination=F, event_type="RaftAppendEntries",
                   payload={"term": term, "leader_id": L.name, "prev_log_index": prev, "prev_log_term": prev_term,
                            "entries": entries, "leader_commit": lc}, daemon=True)
    _deliver(F, msg)
    after = [(e.index, e.term, e.command) for e in F._log._entries]
    r.wit.add("stale_append_handled")
    if after[: len(before)] != before:
        r.bad("raft_follower_keeps_entries_matching_the_leader", {"before": [b[1] for b in before], "after": [a[1] for a in after], "prev": prev, "entries": len(entries)})
    if F._log.commit_index < fc:
        r.bad("raft_commit_index_never_decreases", fc, F._log.commit_index)
    r.obs = {"before": len(before), "after": len(after), "commit": F._log.commit_index}
    return r


HARNESSES.append(
    H(name="c11_stale_append_lemma", fn=stale_append_lemma, shape="I", budget=lambda tier: 900.0,
      cubes=lambda tier: [{"L_len": a} for a in (2, 3)],
      require=lambda tier: ["stale_append_handled"], classify=classify,
      functions=["RaftNode._handle_append_entries", "Log.truncate_from/append/advance_commit"],
      bounds=lambda tier: {"leader log": "2-3 entries", "follower": "matching prefix of symbolic length, symbolic commit index", "stale request": "symbolic prev index / entry count ending before the follower's last index"}))
