"""C02 — generator processes and futures resume at the right instant, with the right value, once.

A process entity executes a *script* (list of steps chosen by symbolic op-codes) as a real
generator inside the real engine; resolver events with symbolic timestamps and values resolve
the futures.  A reference interpreter of the documented semantics runs on the same path."""
from __future__ import annotations

from happysimulator.core.entity import Entity
from happysimulator.core.event import Event
from happysimulator.core.sim_future import SimFuture, all_of, any_of
from happysimulator.core.simulation import Simulation
from happysimulator.core.temporal import Instant

from harness.common import Monitor, Recorder, SpinDetected, mk_event
from vf.harness import H
from vf.sym import Result

DELAYS = [(0.0, 0), (2.5e-7, 250), (1e-9, 1), (0.5, 500_000_000)]   # (seconds yielded, exact ns)
INF = 10**18
K_DELAY, K_SIDE, K_FUT, K_ANY, K_ALL, K_SUB, K_NEST = range(7)


def _script(sym, tier):
    n = 3
    steps = []
    for s in range(n):
        if tier == "quick" and s == n - 1:
            k = [K_DELAY, K_FUT, K_ALL][sym.choice(f"kind{s}", 3)]     # quick: last step restricted
        else:
            k = sym.choice(f"kind{s}", 7)
        if k == K_DELAY:
            steps.append((k, sym.choice(f"dsel{s}", 2)))
        elif k == K_SIDE:
            steps.append((k, 2))
        elif k == K_FUT:
            steps.append((k, sym.choice(f"fsel{s}", 2 if tier == "quick" else 3)))
        elif k == K_SUB:
            steps.append((k, sym.choice(f"fsel{s}", 2)))
        else:
            steps.append((k, 0))
    return steps


def scenario(sym, tier):
    r = Result()
    steps = _script(sym, tier)
    NF = 2 if tier == "quick" else 3
    t0 = 1 if tier == "quick" else sym.int("t0", 0, 2)
    # resolve instants; future NF-1 may stay unresolved for ever in the thorough tier
    R = [sym.int(f"r{j}", 0, 600) for j in range(NF)]
    V = [sym.int(f"v{j}", -3, 3) for j in range(NF)]
    never_last = (tier != "quick") and sym.bool("last_future_never_resolved")
    # second resolve() of future 0 with a different value, at or after the first
    r0b = R[0] + (sym.pick("second_resolve_after", [0, 300]) if tier == "quick" else sym.int("second_resolve_after", 0, 300))
    futs = [SimFuture() for _ in range(NF)]
    plog = []        # (step, what, now ns, received)
    dlog = []        # deliveries to the sink: (label, ns)
    hooks = []

    class Proc(Entity):
        def handle_event(self, event):
            def sub(j):
                yield DELAYS[1][0]
                x = yield futs[j]
                return x
            for i, (k, a) in enumerate(steps):
                if k == K_DELAY:
                    got = yield DELAYS[a][0]
                elif k == K_SIDE:
                    got = yield DELAYS[a][0], [mk_event(self.now.nanoseconds, f"side{i}", sink)]
                elif k == K_FUT:
                    got = yield futs[a]
                elif k == K_ANY:
                    got = yield any_of(futs[0], futs[1])
                elif k == K_ALL:
                    got = yield all_of(futs[0], futs[1])
                elif k == K_NEST:
                    got = yield all_of(any_of(futs[0], futs[1]), futs[1])      # combinators nested, sharing an input
                else:
                    got = yield from sub(a)
                plog.append((i, self.now.nanoseconds, got))
            return [mk_event(self.now.nanoseconds, "final", sink)]

    class Resolver(Entity):
        def handle_event(self, event):
            j, v = event.context["metadata"]["j"], event.context["metadata"]["v"]
            futs[j].resolve(v)

    sink = Recorder("sink", dlog)
    proc, res = Proc("proc"), Resolver("res")
    sim = Simulation(entities=[proc, res, sink])
    mon = Monitor(sim, cap=40)
    trig = mk_event(t0, "start", proc)
    trig.add_completion_hook(lambda t: hooks.append(t.nanoseconds))
    evs = [trig]
    used = set()
    for (k, a) in steps:
        if k in (K_FUT, K_SUB):
            used.add(a)
        elif k in (K_ANY, K_ALL, K_NEST):
            used.update((0, 1))
    for j in range(NF):
        if (never_last and j == NF - 1) or j not in used:
            continue       # futures the script never looks at are not resolved (fewer irrelevant orderings)
        e = Event(time=Instant(R[j]), event_type="resolve", target=res, context={"metadata": {"j": j, "v": V[j]}})
        evs.append(e)
    if 0 in used:
        evs.append(Event(time=Instant(r0b), event_type="resolve", target=res, context={"metadata": {"j": 0, "v": V[0] + 10}}))
    sim.schedule(evs)
    try:
        sim.run()
    except SpinDetected:
        pass
    mon.judge(r, "c02")

    # ---- reference interpreter of the stated semantics ------------------
    RR = [R[j] if not (never_last and j == NF - 1) else INF for j in range(NF)]
    now = t0
    exp = []           # (step, resume ns, acceptable values)
    sides = []
    alive = True
    for i, (k, a) in enumerate(steps):
        if k == K_DELAY or k == K_SIDE:
            if k == K_SIDE:
                sides.append((f"side{i}", now))
            now = now + DELAYS[a][1]
            exp.append((i, now, [None]))
        elif k == K_FUT or k == K_SUB:
            if k == K_SUB:
                now = now + DELAYS[1][1]
            if RR[a] >= INF:
                alive = False
                break
            now = now if now >= RR[a] else RR[a]
            exp.append((i, now, [V[a]]))
        elif k == K_ANY:
            first = RR[0] if RR[0] <= RR[1] else RR[1]
            now = now if now >= first else first
            ok = [[x, V[x]] for x in (0, 1) if RR[x] <= now]
            exp.append((i, now, ok))
            if len(ok) == 2:
                r.wit.add("any_of_both_resolved_by_resume")
        elif k == K_NEST:
            # all_of(any_of(f0, f1), f1): the inner race is decided at max(yield instant, first resolve); all resolve with f1
            first = RR[0] if RR[0] <= RR[1] else RR[1]
            inner_at = now if now >= first else first
            winners = [[x, V[x]] for x in (0, 1) if RR[x] <= inner_at]
            if RR[1] >= INF:
                alive = False
                break
            now = now if now >= RR[1] else RR[1]
            exp.append((i, now, [[w, V[1]] for w in winners]))
            r.wit.add("nested_combinators")
        else:
            last = RR[0] if RR[0] >= RR[1] else RR[1]
            if last >= INF:
                alive = False
                break
            if now < last:
                r.wit.add("all_of_waits")
            now = now if now >= last else last
            exp.append((i, now, [[V[0], V[1]]]))
    if not mon.spun:
        if len(plog) != len(exp):
            r.bad("process_resumes_exactly_once_per_step", {"got": plog, "expected": exp})
        else:
            for (gi, gt, gv), (ei, et, ok) in zip(plog, exp):
                if gi != ei or gt != et:
                    r.bad("process_resumes_at_the_right_instant", {"step": ei, "got_ns": gt, "expected_ns": et, "steps": steps})
                    break
                gvn = [list(x) if isinstance(x, (tuple, list)) else x for x in gv] if isinstance(gv, (tuple, list)) else gv
                if not any(gvn == o for o in ok):
                    r.bad("process_receives_the_resolved_value", {"step": ei, "got": gvn, "acceptable": ok, "steps": steps})
                    break
        got_sides = [(l, t) for (l, _w, t, _c, _e) in dlog if l.startswith("side")]
        want_sides = [s for s in sides if True]
        if alive:
            if got_sides != want_sides:
                r.bad("side_effect_events_delivered_at_the_yield_instant", got_sides, want_sides)
            finals = [t for (l, _w, t, _c, _e) in dlog if l == "final"]
            if finals != [now]:
                r.bad("return_events_take_effect_once_at_finish", finals, now)
            if hooks != [now]:
                r.bad("completion_hook_runs_once_at_finish", hooks, now)
        else:
            r.wit.add("process_parked_for_ever")
            if hooks or any(l == "final" for (l, _w, t, _c, _e) in dlog):
                r.bad("unfinished_process_must_not_complete", hooks)
        if futs[0].is_resolved and futs[0].value != V[0]:
            r.bad("second_resolve_has_no_effect", futs[0].value, V[0])
    for (k, a) in steps:
        if k in (K_FUT, K_SUB) and not (never_last and a == NF - 1):
            r.wit.add("future_step")
    r.obs = {"steps": steps, "plog": [[a, b, ([list(x) if isinstance(x, (tuple, list)) else x for x in c] if isinstance(c, (tuple, list)) else c)] for a, b, c in plog]}
    return r


def _cubes(tier):
    if tier == "quick":
        return [{"kind0": a, "kind1": b} for a in range(7) for b in range(7)]
    return [{"kind0": a, "kind1": b, "kind2": c} for a in range(7) for b in range(7) for c in range(7)]


MANIFEST = {
    "note": "Trusted: CrossHair's interpreter model of CPython and z3; the harness reference interpreter (60 lines) as the oracle. "
            "Generator delays come from a concrete table (0, 250 ns, 1 ns, 0.5 s) so float->ns conversion is computed natively; "
            "resolve instants, start instant and values are symbolic.",
}

HARNESSES = [
    H(name="c02_script", fn=scenario, shape="S", cubes=_cubes,
      budget=lambda tier: 600.0 if tier == "quick" else 3000.0,
      require=lambda tier: ["future_step", "any_of_both_resolved_by_resume", "all_of_waits", "nested_combinators"],
      functions=["Event.invoke", "Event._start_process", "ProcessContinuation.invoke", "ProcessContinuation._normalize_yield",
                 "Event._run_completion_hooks", "SimFuture._park", "SimFuture.resolve", "SimFuture._resume",
                 "SimFuture._add_settle_callback", "any_of", "all_of"],
      bounds=lambda tier: {"steps": "3 (last one of delay/future/all_of)" if tier == "quick" else "3 (all seven kinds in every position)", "step kinds": ["delay", "delay+side effect", "future", "any_of", "all_of", "yield from sub()", "all_of(any_of(a,b), b)"],
                           "futures": 2 if tier == "quick" else 3, "resolve instants": "symbolic ns [0,600]", "values": "symbolic [-3,3]",
                           "delays": [d for d, _ in DELAYS], "second resolve of future 0": "symbolic, at or after the first"},
      outside=["symbolic (non-table) float delays", "generators nested deeper than one yield from", "futures shared by two generators (documented as unsupported)",
               "which input any_of reports when several were already resolved at the instant of resumption (any of them accepted)"]),
]
