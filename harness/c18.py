"""C18 — logical clocks respect causality; CRDT replicas converge to the specified value."""
from __future__ import annotations

from happysimulator.components.crdt.g_counter import GCounter
from happysimulator.components.crdt.lww_register import LWWRegister
from happysimulator.components.crdt.or_set import ORSet
from happysimulator.components.crdt.pn_counter import PNCounter
from happysimulator.core.logical_clocks import HLCTimestamp, HybridLogicalClock, LamportClock, VectorClock
from happysimulator.core.temporal import Instant

from vf.harness import H
from vf.sym import Result

NODES = ["n0", "n1", "n2"]


# ------------------------------------------------------------------ clocks
def _history(sym, tier, which):
    """Run a symbolic history of local/send/receive steps on one real clock family.
    Returns (events, reach) where events[i] = (node, stamp) and reach is the
    happened-before relation (program order + send->receive, transitively closed).
    The first step is at node 0 (node symmetry)."""
    N = 2 if tier == "quick" else 3
    S = 4 if tier == "quick" else 5
    ids = NODES[:N]
    if which == "lamport":
        clk = [LamportClock(sym.int(f"lam_init{i}", 0, 3)) for i in range(N)]
    elif which == "vector":
        clk = [VectorClock(ids[i], ids) for i in range(N)]
        own = [sym.int(f"vc_own{i}", 0, 2) for i in range(N)]
        for i in range(N):
            for j in range(N):
                if i == j:
                    clk[i]._vector[ids[j]] = own[j]
                else:   # a node never knows more about j than j itself (consistent prior history)
                    clk[i]._vector[ids[j]] = own[j] if sym.bool(f"vc_uptodate{i}{j}") else 0
    else:
        cur = [sym.int(f"phys_base{i}", 0, 3) for i in range(N)]
        clk = [HybridLogicalClock(ids[i], wall_time=(lambda i=i: Instant(cur[i]))) for i in range(N)]
        # arbitrary prior history: the last stamp may be ahead of the node's own physical clock (pushed by remote
        # stamps) and carry any logical counter
        for i in range(N):
            clk[i]._last = HLCTimestamp(physical_ns=cur[i] + sym.int(f"hlc_last_ahead{i}", 0, 1), logical=sym.int(f"hlc_last_logical{i}", 0, 2), node_id=ids[i])
    events, hb, pool = [], [], []
    last_at = [None] * N
    wit = set()

    def stamp(n):
        if which == "lamport":
            return clk[n].time
        if which == "vector":
            return clk[n].snapshot()
        return clk[n]._last

    def record(n):
        idx = len(events)
        events.append((n, stamp(n)))
        if last_at[n] is not None:
            hb.append((last_at[n], idx))
        last_at[n] = idx
        return idx

    for s in range(S):
        if s == 0:
            kind, n = sym.choice("kind0", 2), 0
        else:
            op = sym.choice(f"op{s}", 3 * N)
            kind, n = op // N, op % N
        if which == "hlc":
            cur[n] = cur[n] + sym.int(f"phys_inc{s}", 0, 2)
        cands = [m for m in pool if m[0] != n]
        if kind == 2 and cands:
            m = cands[sym.choice(f"msg{s}", len(cands))] if len(cands) > 1 else cands[0]
            pool.remove(m)
            clk[n].receive(m[2])
            idx = record(n)
            hb.append((m[1], idx))
            wit.add("receive")
        elif kind == 1:
            ts = clk[n].send()
            idx = record(n)
            pool.append((n, idx, ts))
        else:
            if which == "hlc":
                clk[n].now()
            else:
                clk[n].tick()
            record(n)
    E = len(events)
    reach = [[False] * E for _ in range(E)]
    for a, b in hb:
        reach[a][b] = True
    for k in range(E):
        for a in range(E):
            if reach[a][k]:
                for b in range(E):
                    if reach[k][b]:
                        reach[a][b] = True
    return ids, events, reach, wit


def lamport(sym, tier):
    r = Result()
    ids, events, reach, wit = _history(sym, tier, "lamport")
    r.wit |= wit
    for a in range(len(events)):
        for b in range(len(events)):
            if reach[a][b]:
                if events[a][0] != events[b][0]:
                    r.wit.add("cross_node_causal_pair")
                if not (events[a][1] < events[b][1]):
                    r.bad("lamport_causality", a, b, events[a][1], events[b][1])
    r.obs = {"events": [[e[0], e[1]] for e in events]}
    return r


def hlc(sym, tier):
    r = Result()
    ids, events, reach, wit = _history(sym, tier, "hlc")
    r.wit |= wit
    for a in range(len(events)):
        for b in range(len(events)):
            if reach[a][b]:
                if events[a][0] != events[b][0]:
                    r.wit.add("cross_node_causal_pair")
                ta, tb = events[a][1], events[b][1]
                if not (ta < tb):
                    r.bad("hlc_causality", a, b, [ta.physical_ns, ta.logical], [tb.physical_ns, tb.logical])
    r.obs = {"events": [[e[0], e[1].physical_ns, e[1].logical] for e in events]}
    return r


def vector(sym, tier):
    r = Result()
    ids, events, reach, wit = _history(sym, tier, "vector")
    r.wit |= wit
    E = len(events)
    for a in range(E):
        for b in range(E):
            if a == b:
                continue
            va = VectorClock(ids[events[a][0]], ids); va._vector = dict(events[a][1])
            vb = VectorClock(ids[events[b][0]], ids); vb._vector = dict(events[b][1])
            vhb = va.happened_before(vb)
            if reach[a][b]:
                if events[a][0] != events[b][0]:
                    r.wit.add("cross_node_causal_pair")
                if not vhb:
                    r.bad("vector_orders_causal_pairs", a, b, events[a][1], events[b][1])
            else:
                if vhb:
                    r.bad("vector_orders_only_causal_pairs", a, b, events[a][1], events[b][1])
                if not reach[b][a]:
                    r.wit.add("concurrent_pair")
                    if not va.is_concurrent(vb):
                        r.bad("vector_concurrent", a, b, events[a][1], events[b][1])
    r.obs = {"events": [[e[0], e[1]] for e in events]}
    return r


# ------------------------------------------------------------------ counters
def _sym_gcounter(sym, tag, node, tier):
    """Arbitrary G-counter state; one symbolic flag decides whether the entry of the
    'last' node id is absent (never heard of) rather than present."""
    g = GCounter(node)
    ids = NODES[:2] if tier == "quick" else NODES
    for j, nid in enumerate(ids):
        if j == len(ids) - 1 and sym.bool(f"{tag}_missing_last"):
            continue
        g._counts[nid] = sym.int(f"{tag}_c{j}", 0, 3)
    return g


def _copy_g(g):
    c = GCounter(g.node_id)
    c._counts = dict(g._counts)
    return c


def counter_merge_laws(sym, tier):
    """merge on arbitrary G-counter / PN-counter states is commutative, associative, idempotent."""
    r = Result()
    a, b, c = (_sym_gcounter(sym, t, n, tier) for t, n in (("a", "n0"), ("b", "n1"), ("c", "n2")))

    def m(x, y):
        z = _copy_g(x)
        z.merge(y)
        return z

    def val(g):
        return {k: g.node_value(k) for k in NODES}

    if val(m(a, b)) != val(m(b, a)) or m(a, b).value != m(b, a).value:
        r.bad("gcounter_merge_commutative", val(a), val(b))
    if val(m(m(a, b), c)) != val(m(a, m(b, c))):
        r.bad("gcounter_merge_associative", val(a), val(b), val(c))
    if val(m(a, a)) != val(a) or val(m(m(a, b), b)) != val(m(a, b)):
        r.bad("gcounter_merge_idempotent", val(a), val(b))
    for k in NODES:
        if m(a, b).node_value(k) != max(a.node_value(k), b.node_value(k)):
            r.bad("gcounter_merge_is_pointwise_max", val(a), val(b))
    # PN counter built from the same parts
    p, q = PNCounter("n0"), PNCounter("n1")
    p._p, p._n, q._p, q._n = _copy_g(a), _copy_g(b), _copy_g(b), _copy_g(c)
    p2, q2 = PNCounter.from_dict(p.to_dict()), PNCounter.from_dict(q.to_dict())
    p.merge(q)
    q2.merge(p2)
    if p.value != q2.value or not (p == q2):
        r.bad("pncounter_merge_commutative_roundtrip", val(a), val(b), val(c))
    if any(x.node_value(k) != y.node_value(k) for k in NODES for x, y in ((a, b),)):
        r.wit.add("states_differ")
    r.obs = {"a": val(a), "b": val(b), "c": val(c)}
    return r


def counter_script(sym, tier):
    """inc/dec/merge script with symbolic amounts on 3 PN-counter replicas: after an
    all-to-all exchange every replica equals the others and value = sum(inc) - sum(dec);
    before that a replica never exceeds what was issued and always includes its own ops."""
    r = Result()
    S = 3 if tier == "quick" else 4
    reps = [PNCounter(n) for n in NODES]
    inc = [0, 0, 0]
    dec = [0, 0, 0]
    for s in range(S):
        op = sym.choice(f"op{s}", 4)
        i = sym.choice(f"rep{s}", 3) if s > 0 else 0       # replica symmetry
        if op == 0:
            n = sym.int(f"amt{s}", 1, 5)
            reps[i].increment(n)
            inc[i] = inc[i] + n
        elif op == 1:
            n = sym.int(f"amt{s}", 1, 5)
            reps[i].decrement(n)
            dec[i] = dec[i] + n
        elif op == 2:
            j = (i + 1 + sym.choice(f"from{s}", 2)) % 3
            reps[i].merge(reps[j])
            r.wit.add("merge")
        else:
            j = (i + 1 + sym.choice(f"from{s}", 2)) % 3
            reps[i].merge(PNCounter.from_dict(reps[j].to_dict()))
            r.wit.add("merge_via_dict")
        for k in range(3):
            if reps[k].increments > inc[0] + inc[1] + inc[2] or reps[k].decrements > dec[0] + dec[1] + dec[2]:
                r.bad("counter_never_exceeds_issued", k)
            if reps[k]._p.node_value(NODES[k]) != inc[k] or reps[k]._n.node_value(NODES[k]) != dec[k]:
                r.bad("counter_keeps_own_ops", k)
    for _round in range(2):
        for i in range(3):
            for j in range(3):
                if i != j:
                    reps[i].merge(reps[j])
    total = inc[0] + inc[1] + inc[2] - dec[0] - dec[1] - dec[2]
    for k in range(3):
        if reps[k].value != total:
            r.bad("counter_value_is_inc_minus_dec", k, reps[k].value, total)
        if not (reps[k] == reps[0]):
            r.bad("counter_replicas_equal", k)
    r.obs = {"inc": inc, "dec": dec, "value": reps[0].value}
    return r


# ------------------------------------------------------------------ LWW register
def lww(sym, tier):
    r = Result()
    W = 3
    writes = []
    for w in range(W):
        ts = HLCTimestamp(sym.int(f"pt{w}", 0, 2), sym.int(f"lg{w}", 0, 2), NODES[sym.choice(f"nd{w}", 2)])
        writes.append((ts, 100 + w))
    for a in range(W):
        for b in range(a + 1, W):
            if writes[a][0] == writes[b][0]:
                return r      # two writes with an identical (physical, logical, node) stamp cannot come from one HLC
    best = writes[0]
    for w in writes[1:]:
        if w[0] > best[0]:
            best = w
    regs = [LWWRegister(n) for n in NODES]
    for w in range(W):
        regs[sym.choice(f"at{w}", 3)].set(writes[w][1], writes[w][0])

    def cp(x):
        return LWWRegister.from_dict(x.to_dict())

    def m(x, y):
        z = cp(x)
        z.merge(y)
        return z

    a, b, c = regs
    if not (m(a, b) == m(b, a)):
        r.bad("lww_merge_commutative")
    if not (m(m(a, b), c) == m(a, m(b, c))):
        r.bad("lww_merge_associative")
    if not (m(a, a) == a) or not (m(m(a, b), b) == m(a, b)):
        r.bad("lww_merge_idempotent")
    full = m(m(a, b), c)
    if full.get() != best[1] or full.timestamp != best[0]:
        r.bad("lww_holds_greatest_timestamp", full.get(), best[1])
    if writes[0][0].physical_ns == writes[1][0].physical_ns and writes[0][0].logical == writes[1][0].logical:
        r.wit.add("tie_broken_by_node_id")
    r.obs = {"winner": full.get()}
    return r


# ------------------------------------------------------------------ OR-set
ELEMS = ["x", "y"]


def orset(sym, tier):
    """add/remove/merge script on 2-3 replicas checked after every step against the
    op-based specification: e is present at r iff some add of e observed by r has not
    been observed-removed at r (removals travel with merges)."""
    r = Result()
    cfg = sym.choice("cfg", 2)          # 0: 2 replicas, 1: 3 replicas (thorough only)
    R = 2 if cfg == 0 else 3
    S = 4 if (tier == "quick" or cfg == 1) else 5
    reps = [ORSet(NODES[i]) for i in range(R)]
    seen = [set() for _ in range(R)]       # add ids observed
    removed = [set() for _ in range(R)]    # add ids whose removal was observed
    adds = {}                              # add id -> element
    script = []
    for s in range(S):
        if s == 0:
            op, i = 0, 0                 # histories start with an add at replica 0 (nothing to remove/merge before)
        else:
            op = sym.choice(f"op{s}", 4)
            i = sym.choice(f"rep{s}", R)
        if op == 0:
            e = ELEMS[sym.choice(f"el{s}", 2)] if s > 0 else ELEMS[0]
            reps[i].add(e)
            aid = len(adds)
            adds[aid] = e
            seen[i].add(aid)
            script.append(("add", i, e))
        elif op == 1:
            e = ELEMS[sym.choice(f"el{s}", 2)]
            reps[i].remove(e)
            removed[i] |= {a for a in seen[i] if adds[a] == e}
            script.append(("remove", i, e))
        else:
            j = (i + 1 + (sym.choice(f"from{s}", R - 1) if R > 2 else 0)) % R
            other = reps[j] if op == 2 else ORSet.from_dict(reps[j].to_dict())
            reps[i].merge(other)
            seen[i] |= seen[j]
            removed[i] |= removed[j]
            script.append(("merge" if op == 2 else "merge_via_dict", i, j))
            if removed[j] & seen[i]:
                r.wit.add("merge_carries_removal_of_known_add")
        for k in range(R):
            for e in ELEMS:
                spec = any(adds[a] == e for a in (seen[k] - removed[k]))
                if reps[k].contains(e) != spec:
                    r.bad("orset_contains_iff_unremoved_add", {"script": script, "replica": k, "element": e,
                                                                "impl": reps[k].contains(e), "spec": spec})
                    r.obs = {"script": script}
                    return r
    # replicas that have received the same updates are equal
    for _round in range(2):
        for i in range(R):
            for j in range(R):
                if i != j:
                    reps[i].merge(reps[j])
                    seen[i] |= seen[j]
                    removed[i] |= removed[j]
    for k in range(R):
        if not (reps[k] == reps[0]) or reps[k].elements != reps[0].elements:
            r.bad("orset_replicas_converge", {"script": script, "k": k, "a": sorted(reps[0].elements), "b": sorted(reps[k].elements)})
        for e in ELEMS:
            spec = any(adds[a] == e for a in (seen[k] - removed[k]))
            if reps[k].contains(e) != spec:
                r.bad("orset_converged_value_is_specified", {"script": script, "replica": k, "element": e,
                                                               "impl": reps[k].contains(e), "spec": spec})
                break
    r.obs = {"script": script, "elements": sorted(reps[0].elements)}
    return r


_O3 = ([("add", i, None) for i in range(3)] + [("remove", i, None) for i in range(3)]
       + [("merge", i, j) for i in range(3) for j in range(3) if i != j])


def orset3(sym, tier):
    """Three OR-set replicas, one element, every history of 5 (quick) / 6 operations out of
    add@i, remove@i, merge i<-j (12 options per step) starting with add@0: after every step each
    replica contains the element iff it has observed an add whose removal it has not observed;
    afterwards merging in any order gives the same set (commutative, associative, idempotent)."""
    r = Result()
    S = 5 if tier == "quick" else 6
    reps = [ORSet(NODES[i]) for i in range(3)]
    seen = [set() for _ in range(3)]
    removed = [set() for _ in range(3)]
    nadds = 0
    script = []
    for s_ in range(S):
        kind, i, j = _O3[0] if s_ == 0 else _O3[sym.choice(f"step{s_}", len(_O3))]
        if kind == "add":
            reps[i].add("x")
            seen[i].add(nadds)
            nadds += 1
        elif kind == "remove":
            reps[i].remove("x")
            removed[i] |= set(seen[i])
        else:
            reps[i].merge(reps[j])
            if removed[j] - seen[i]:
                r.wit.add("removal_arrives_before_the_add_it_cancels")
            seen[i] |= seen[j]
            removed[i] |= removed[j]
        script.append((kind, i, j))
        for k in range(3):
            spec = bool(seen[k] - removed[k])
            if reps[k].contains("x") != spec:
                r.bad("orset_contains_iff_unremoved_add", {"script": script, "replica": k, "impl": reps[k].contains("x"), "spec": spec})
                r.obs = {"script": script}
                return r
    # merge laws on the reached states
    import copy as _copy
    A, B, C = reps

    def union(*xs):
        m = ORSet("m")
        for x in xs:
            m.merge(_copy.deepcopy(x))
        return m
    ref = union(A, B, C)
    for order in ((A, C, B), (B, A, C), (C, B, A), (B, C, A)):
        if union(*order).elements != ref.elements:
            r.bad("orset_merge_order_does_not_matter", {"script": script, "ref": sorted(ref.elements), "other": sorted(union(*order).elements)})
            break
    bc = union(B, C)
    if union(A, bc).elements != ref.elements:
        r.bad("orset_merge_is_associative", {"script": script})
    if union(A, A).elements != union(A).elements:
        r.bad("orset_merge_is_idempotent", {"script": script})
    spec_all = bool((seen[0] | seen[1] | seen[2]) - (removed[0] | removed[1] | removed[2]))
    if ref.contains("x") != spec_all:
        r.bad("orset_converged_value_is_specified", {"script": script, "impl": ref.contains("x"), "spec": spec_all})
    r.obs = {"script": script}
    return r


def orset_classify(clause, draws, obs):
    return None


def orset_roundtrip(sym, tier):
    """to_dict/from_dict preserves value and merge behaviour (str and int elements)."""
    r = Result()
    use_int = sym.bool("int_elements")
    el = [1, 2] if use_int else ["x", "y"]
    a = ORSet("n0")
    b = ORSet("n1")
    for s in range(3):
        op = sym.choice(f"op{s}", 3)
        tgt = a if sym.bool(f"at{s}") else b
        e = el[sym.choice(f"el{s}", 2)]
        if op == 0:
            tgt.add(e)
        elif op == 1:
            tgt.remove(e)
        else:
            tgt.merge(b if tgt is a else a)
    a2 = ORSet.from_dict(a.to_dict())
    if a2.elements != a.elements:
        r.bad("orset_roundtrip_preserves_value", [repr(e) for e in a.elements], [repr(e) for e in a2.elements])
    m1 = ORSet.from_dict(b.to_dict()) if False else b
    x = ORSet("n2"); x.merge(a); x.merge(m1)
    y = ORSet("n2"); y.merge(a2); y.merge(m1)
    if x.elements != y.elements:
        r.bad("orset_roundtrip_preserves_merge", [repr(e) for e in x.elements], [repr(e) for e in y.elements])
    if use_int and a.elements:
        r.wit.add("int_elements_nonempty")
    r.obs = {"n_elements": len(a.elements)}
    return r


def _rt_classify(clause, draws, obs):
    d = dict((k, v) for k, v in draws)
    if clause.startswith("orset_roundtrip_") and d.get("int_elements") == 1:
        return "orset-to_dict-stringifies-non-str-elements"
    return None


def _clock_h(name, fn, funcs, extra_bounds):
    return H(name=name, fn=fn, shape="S",
             cubes=lambda tier: [{"kind0": k, "op1": o} for k in range(2) for o in range(3 * (2 if tier == "quick" else 3))],
             budget=lambda tier: 400.0 if tier == "quick" else 2400.0,
             require=lambda tier: ["receive", "cross_node_causal_pair"] + (["concurrent_pair"] if name == "c18_vector" else []),
             functions=funcs,
             bounds=lambda tier: dict({"nodes": 2 if tier == "quick" else 3, "steps": 4 if tier == "quick" else 5,
                                       "first step": "at node 0 (symmetry)"}, **extra_bounds),
             outside=["more than 3 nodes / 5 steps per history"])


HARNESSES = [
    _clock_h("c18_lamport", lamport, ["LamportClock.tick/send/receive"], {"initial_time": "symbolic [0,3] per node"}),
    _clock_h("c18_vector", vector, ["VectorClock.tick/send/receive/happened_before/is_concurrent/snapshot"],
             {"initial_vectors": "own entry symbolic [0,2]; each other node's view of it either up to date or 0"}),
    _clock_h("c18_hlc", hlc, ["HybridLogicalClock.now/send/receive", "HLCTimestamp.__lt__"],
             {"physical_clock": "symbolic base [0,3] per node (arbitrary skew), symbolic increment [0,2] per step (arbitrary drift)",
              "initial HLC state": "last stamp = own clock + symbolic [0,1], symbolic logical counter [0,2]"}),
    H(name="c18_counter_laws", fn=counter_merge_laws, shape="I", budget=lambda tier: 300.0,
      cubes=lambda tier: [{"a_missing_last": x, "b_missing_last": y} for x in (0, 1) for y in (0, 1)],
      require=lambda tier: ["states_differ"],
      functions=["GCounter.merge/value/node_value", "PNCounter.merge/to_dict/from_dict/__eq__"],
      bounds=lambda tier: {"replica_states": "3 arbitrary states over %d node ids, counts symbolic [0,3], last key optionally absent" % (2 if tier == "quick" else 3)}),
    H(name="c18_counter_script", fn=counter_script, shape="S",
      cubes=lambda tier: [{"op0": a, "op1": b} for a in range(4) for b in range(4)],
      budget=lambda tier: 400.0 if tier == "quick" else 2400.0,
      require=lambda tier: ["merge", "merge_via_dict"],
      functions=["PNCounter.increment/decrement/merge/value", "GCounter.increment/merge"],
      bounds=lambda tier: {"replicas": 3, "ops": 3 if tier == "quick" else 4, "amounts": "symbolic [1,5]"}),
    H(name="c18_lww", fn=lww, shape="I", budget=lambda tier: 300.0,
      cubes=lambda tier: [{"at0": a, "at1": b} for a in range(3) for b in range(3)],
      require=lambda tier: ["tie_broken_by_node_id"],
      functions=["LWWRegister.set/merge/to_dict/from_dict", "HLCTimestamp.__lt__/__eq__"],
      bounds=lambda tier: {"writes": 3, "timestamps": "symbolic (physical [0,2], logical [0,2], node in 2)", "replicas": 3}),
    H(name="c18_orset", fn=orset, shape="S",
      cubes=lambda tier: [{"cfg": c, "op1": a, "op2": b} for c in ((0,) if tier == "quick" else (0, 1)) for a in range(4) for b in range(4)],
      budget=lambda tier: 400.0 if tier == "quick" else 3000.0, classify=orset_classify,
      require=lambda tier: ["merge_carries_removal_of_known_add"],
      functions=["ORSet.add/remove/merge/contains/elements/__eq__/to_dict/from_dict"],
      bounds=lambda tier: {"configs": "2 replicas x 4 ops" if tier == "quick" else "2 replicas x 5 ops, 3 replicas x 4 ops",
                           "elements": 2, "first op": "add(x) at replica 0"},
      outside=["more than 3 replicas", "scripts longer than 5 operations"]),
    H(name="c18_orset3", fn=orset3, shape="S",
      cubes=lambda tier: [{"step1": a} for a in range(12)] if tier == "quick" else [{"step1": a, "step2": b} for a in range(12) for b in range(12)],
      budget=lambda tier: 900.0 if tier == "quick" else 3000.0, classify=orset_classify,
      require=lambda tier: ["removal_arrives_before_the_add_it_cancels"],
      functions=["ORSet.add/remove/merge/contains/elements"],
      bounds=lambda tier: {"replicas": 3, "elements": 1, "operations": "5 (quick) / 6, first = add at replica 0, then any of add@i, remove@i, merge i<-j"},
      outside=["more than 3 replicas", "more than one element in the 3-replica histories"]),
    H(name="c18_orset_roundtrip", fn=orset_roundtrip, shape="I", budget=lambda tier: 300.0, classify=_rt_classify,
      cubes=lambda tier: [{"int_elements": x, "op0": a} for x in (0, 1) for a in range(3)],
      functions=["ORSet.to_dict/from_dict"],
      bounds=lambda tier: {"ops": 3, "element types": ["str", "int"]}),
]
