"""C18 — logical clocks respect causality; CRDT replicas converge to the specified value."""
from __future__ import annotations

from happysimulator.components.crdt.g_counter import GCounter
from happysimulator.components.crdt.lww_register import LWWRegister
from happysimulator.components.crdt.or_set import ORSet
from happysimulator.components.crdt.pn_counter import PNCounter
from happysimulator.core.logical_clocks import HLCTimestamp, HybridLogicalClock, LamportClock, VectorClock
from happysimulator.core.temporal import Instant

from vf.harness import H
from vf.sym import Result

NODES = ["n0", "n1", "n2"]


# ------------------------------------------------------------------ clocks
def clocks(sym, tier):
    """History of local/send/receive steps among N nodes executed on the real Lamport,
    vector and hybrid logical clocks.  Initial clock states are symbolic (arbitrary
    consistent prior history); physical clock readings are symbolic, non-decreasing
    per node, arbitrary skew between nodes."""
    r = Result()
    N = 2 if tier == "quick" else 3
    S = 4 if tier == "quick" else 5
    ids = NODES[:N]
    lam = [LamportClock(sym.int(f"lam_init{i}", 0, 3)) for i in range(N)]
    vec = [VectorClock(ids[i], ids) for i in range(N)]
    # consistent initial vectors: own entry >= anybody's view of it
    own = [sym.int(f"vc_own{i}", 0, 2) for i in range(N)]
    for i in range(N):
        for j in range(N):
            if i == j:
                vec[i]._vector[ids[j]] = own[j]
            else:
                lag = sym.int(f"vc_lag{i}{j}", 0, 2)
                v = own[j] - lag
                vec[i]._vector[ids[j]] = v if v > 0 else 0
    phys = [sym.int(f"phys_base{i}", 0, 3) for i in range(N)]
    cur = list(phys)
    hlc = [HybridLogicalClock(ids[i], wall_time=(lambda i=i: Instant(cur[i]))) for i in range(N)]

    events = []      # (node, lamport, vector snapshot, hlc ts)
    hb = []          # direct edges (a_idx, b_idx)
    last_at = [None] * N
    pool = []        # (sender, event idx, lamport ts, vector, hlc ts)

    def record(n):
        idx = len(events)
        events.append((n, lam[n].time, vec[n].snapshot(), hlc[n]._last))
        if last_at[n] is not None:
            hb.append((last_at[n], idx))
        last_at[n] = idx
        return idx

    for s in range(S):
        op = sym.choice(f"op{s}", 3 * N)
        kind, n = op // N, op % N
        cur[n] = cur[n] + sym.int(f"phys_inc{s}", 0, 2)
        cands = [m for m in pool if m[0] != n]
        if kind == 2 and cands:
            m = cands[sym.choice(f"msg{s}", len(cands))] if len(cands) > 1 else cands[0]
            pool.remove(m)
            lam[n].receive(m[2])
            vec[n].receive(m[3])
            hlc[n].receive(m[4])
            idx = record(n)
            hb.append((m[1], idx))
            r.wit.add("receive")
        elif kind == 1:
            lt = lam[n].send()
            vt = vec[n].send()
            ht = hlc[n].send()
            idx = record(n)
            pool.append((n, idx, lt, vt, ht))
        else:
            lam[n].tick()
            vec[n].tick()
            hlc[n].now()
            record(n)
    E = len(events)
    reach = [[False] * E for _ in range(E)]
    for a, b in hb:
        reach[a][b] = True
    for k in range(E):
        for a in range(E):
            if reach[a][k]:
                for b in range(E):
                    if reach[k][b]:
                        reach[a][b] = True
    for a in range(E):
        for b in range(E):
            if a == b:
                continue
            ea, eb = events[a], events[b]
            va = VectorClock(ids[ea[0]], ids); va._vector = dict(ea[2])
            vb = VectorClock(ids[eb[0]], ids); vb._vector = dict(eb[2])
            vhb = va.happened_before(vb)
            if reach[a][b]:
                if not (ea[1] < eb[1]):
                    r.bad("lamport_causality", a, b, ea[1], eb[1])
                if not (ea[3] < eb[3]):
                    r.bad("hlc_causality", a, b, [ea[3].physical_ns, ea[3].logical], [eb[3].physical_ns, eb[3].logical])
                if not vhb:
                    r.bad("vector_orders_causal_pairs", a, b, ea[2], eb[2])
                if ea[0] != eb[0]:
                    r.wit.add("cross_node_causal_pair")
            else:
                if vhb:
                    r.bad("vector_orders_only_causal_pairs", a, b, ea[2], eb[2])
                if not reach[b][a]:
                    r.wit.add("concurrent_pair")
                    if not va.is_concurrent(vb):
                        r.bad("vector_concurrent", a, b, ea[2], eb[2])
    r.obs = {"events": [[e[0], e[1], e[2], [e[3].physical_ns, e[3].logical]] for e in events]}
    return r


# ------------------------------------------------------------------ counters
def _sym_gcounter(sym, tag, node):
    g = GCounter(node)
    for j, nid in enumerate(NODES):
        if sym.bool(f"{tag}_has{j}"):
            g._counts[nid] = sym.int(f"{tag}_c{j}", 0, 3)
    return g


def _copy_g(g):
    c = GCounter(g.node_id)
    c._counts = dict(g._counts)
    return c


def counter_merge_laws(sym, tier):
    """merge on arbitrary G-counter / PN-counter states is commutative, associative, idempotent."""
    r = Result()
    a, b, c = (_sym_gcounter(sym, t, n) for t, n in (("a", "n0"), ("b", "n1"), ("c", "n2")))

    def m(x, y):
        z = _copy_g(x)
        z.merge(y)
        return z

    def val(g):
        return {k: g.node_value(k) for k in NODES}

    if val(m(a, b)) != val(m(b, a)) or m(a, b).value != m(b, a).value:
        r.bad("gcounter_merge_commutative", val(a), val(b))
    if val(m(m(a, b), c)) != val(m(a, m(b, c))):
        r.bad("gcounter_merge_associative", val(a), val(b), val(c))
    if val(m(a, a)) != val(a) or val(m(m(a, b), b)) != val(m(a, b)):
        r.bad("gcounter_merge_idempotent", val(a), val(b))
    for k in NODES:
        if m(a, b).node_value(k) != max(a.node_value(k), b.node_value(k)):
            r.bad("gcounter_merge_is_pointwise_max", val(a), val(b))
    # PN counter built from the same parts
    p, q = PNCounter("n0"), PNCounter("n1")
    p._p, p._n, q._p, q._n = _copy_g(a), _copy_g(b), _copy_g(b), _copy_g(c)
    p2, q2 = PNCounter.from_dict(p.to_dict()), PNCounter.from_dict(q.to_dict())
    p.merge(q)
    q2.merge(p2)
    if p.value != q2.value or not (p == q2):
        r.bad("pncounter_merge_commutative_roundtrip", val(a), val(b), val(c))
    if any(x.node_value(k) != y.node_value(k) for k in NODES for x, y in ((a, b),)):
        r.wit.add("states_differ")
    r.obs = {"a": val(a), "b": val(b), "c": val(c)}
    return r


def counter_script(sym, tier):
    """inc/dec/merge script with symbolic amounts on 3 PN-counter replicas: after an
    all-to-all exchange every replica equals the others and value = sum(inc) - sum(dec);
    before that a replica never exceeds what was issued and always includes its own ops."""
    r = Result()
    S = 4 if tier == "quick" else 5
    reps = [PNCounter(n) for n in NODES]
    inc = [0, 0, 0]
    dec = [0, 0, 0]
    for s in range(S):
        op = sym.choice(f"op{s}", 4)
        i = sym.choice(f"rep{s}", 3)
        if op == 0:
            n = sym.int(f"amt{s}", 1, 5)
            reps[i].increment(n)
            inc[i] = inc[i] + n
        elif op == 1:
            n = sym.int(f"amt{s}", 1, 5)
            reps[i].decrement(n)
            dec[i] = dec[i] + n
        elif op == 2:
            j = (i + 1 + sym.choice(f"from{s}", 2)) % 3
            reps[i].merge(reps[j])
            r.wit.add("merge")
        else:
            j = (i + 1 + sym.choice(f"from{s}", 2)) % 3
            reps[i].merge(PNCounter.from_dict(reps[j].to_dict()))
            r.wit.add("merge_via_dict")
        for k in range(3):
            if reps[k].increments > inc[0] + inc[1] + inc[2] or reps[k].decrements > dec[0] + dec[1] + dec[2]:
                r.bad("counter_never_exceeds_issued", k)
            if reps[k]._p.node_value(NODES[k]) != inc[k] or reps[k]._n.node_value(NODES[k]) != dec[k]:
                r.bad("counter_keeps_own_ops", k)
    for _round in range(2):
        for i in range(3):
            for j in range(3):
                if i != j:
                    reps[i].merge(reps[j])
    total = inc[0] + inc[1] + inc[2] - dec[0] - dec[1] - dec[2]
    for k in range(3):
        if reps[k].value != total:
            r.bad("counter_value_is_inc_minus_dec", k, reps[k].value, total)
        if not (reps[k] == reps[0]):
            r.bad("counter_replicas_equal", k)
    r.obs = {"inc": inc, "dec": dec, "value": reps[0].value}
    return r


# ------------------------------------------------------------------ LWW register
def lww(sym, tier):
    r = Result()
    W = 3
    writes = []
    for w in range(W):
        ts = HLCTimestamp(sym.int(f"pt{w}", 0, 2), sym.int(f"lg{w}", 0, 2), NODES[sym.choice(f"nd{w}", 2)])
        writes.append((ts, 100 + w))
    for a in range(W):
        for b in range(a + 1, W):
            if writes[a][0] == writes[b][0]:
                return r      # two writes with an identical (physical, logical, node) stamp cannot come from one HLC
    best = writes[0]
    for w in writes[1:]:
        if w[0] > best[0]:
            best = w
    regs = [LWWRegister(n) for n in NODES]
    for w in range(W):
        regs[sym.choice(f"at{w}", 3)].set(writes[w][1], writes[w][0])

    def cp(x):
        return LWWRegister.from_dict(x.to_dict())

    def m(x, y):
        z = cp(x)
        z.merge(y)
        return z

    a, b, c = regs
    if not (m(a, b) == m(b, a)):
        r.bad("lww_merge_commutative")
    if not (m(m(a, b), c) == m(a, m(b, c))):
        r.bad("lww_merge_associative")
    if not (m(a, a) == a) or not (m(m(a, b), b) == m(a, b)):
        r.bad("lww_merge_idempotent")
    full = m(m(a, b), c)
    if full.get() != best[1] or full.timestamp != best[0]:
        r.bad("lww_holds_greatest_timestamp", full.get(), best[1])
    if writes[0][0].physical_ns == writes[1][0].physical_ns and writes[0][0].logical == writes[1][0].logical:
        r.wit.add("tie_broken_by_node_id")
    r.obs = {"winner": full.get()}
    return r


# ------------------------------------------------------------------ OR-set
ELEMS = ["x", "y"]


def orset(sym, tier):
    """add/remove/merge script on 2-3 replicas checked after every step against the
    op-based specification: e is present at r iff some add of e observed by r has not
    been observed-removed at r (removals travel with merges)."""
    r = Result()
    R = 2 if tier == "quick" else 3
    S = 4 if tier == "quick" else 5
    reps = [ORSet(NODES[i]) for i in range(R)]
    seen = [set() for _ in range(R)]       # add ids observed
    removed = [set() for _ in range(R)]    # add ids whose removal was observed
    adds = {}                              # add id -> element
    script = []
    for s in range(S):
        op = sym.choice(f"op{s}", 4)
        i = sym.choice(f"rep{s}", R)
        if op == 0:
            e = ELEMS[sym.choice(f"el{s}", 2)]
            reps[i].add(e)
            aid = len(adds)
            adds[aid] = e
            seen[i].add(aid)
            script.append(("add", i, e))
        elif op == 1:
            e = ELEMS[sym.choice(f"el{s}", 2)]
            reps[i].remove(e)
            removed[i] |= {a for a in seen[i] if adds[a] == e}
            script.append(("remove", i, e))
        else:
            j = (i + 1 + (sym.choice(f"from{s}", R - 1) if R > 2 else 0)) % R
            other = reps[j] if op == 2 else ORSet.from_dict(reps[j].to_dict())
            reps[i].merge(other)
            seen[i] |= seen[j]
            removed[i] |= removed[j]
            script.append(("merge" if op == 2 else "merge_via_dict", i, j))
            if removed[j] & seen[i]:
                r.wit.add("merge_carries_removal_of_known_add")
        for k in range(R):
            for e in ELEMS:
                spec = any(adds[a] == e for a in (seen[k] - removed[k]))
                if reps[k].contains(e) != spec:
                    r.bad("orset_contains_iff_unremoved_add", {"script": script, "replica": k, "element": e,
                                                                "impl": reps[k].contains(e), "spec": spec})
                    r.obs = {"script": script}
                    return r
    # replicas that have received the same updates are equal
    for _round in range(2):
        for i in range(R):
            for j in range(R):
                if i != j:
                    reps[i].merge(reps[j])
                    seen[i] |= seen[j]
                    removed[i] |= removed[j]
    for k in range(R):
        if not (reps[k] == reps[0]) or reps[k].elements != reps[0].elements:
            r.bad("orset_replicas_converge", {"script": script, "k": k, "a": sorted(reps[0].elements), "b": sorted(reps[k].elements)})
        for e in ELEMS:
            spec = any(adds[a] == e for a in (seen[k] - removed[k]))
            if reps[k].contains(e) != spec:
                r.bad("orset_converged_value_is_specified", {"script": script, "replica": k, "element": e,
                                                               "impl": reps[k].contains(e), "spec": spec})
                break
    r.obs = {"script": script, "elements": sorted(reps[0].elements)}
    return r


def orset_classify(clause, draws, obs):
    return None


def orset_roundtrip(sym, tier):
    """to_dict/from_dict preserves value and merge behaviour (str and int elements)."""
    r = Result()
    use_int = sym.bool("int_elements")
    el = [1, 2] if use_int else ["x", "y"]
    a = ORSet("n0")
    b = ORSet("n1")
    for s in range(3):
        op = sym.choice(f"op{s}", 3)
        tgt = a if sym.bool(f"at{s}") else b
        e = el[sym.choice(f"el{s}", 2)]
        if op == 0:
            tgt.add(e)
        elif op == 1:
            tgt.remove(e)
        else:
            tgt.merge(b if tgt is a else a)
    a2 = ORSet.from_dict(a.to_dict())
    if a2.elements != a.elements:
        r.bad("orset_roundtrip_preserves_value", sorted(a.elements, key=repr), sorted(a2.elements, key=repr))
    m1 = ORSet.from_dict(b.to_dict()) if False else b
    x = ORSet("n2"); x.merge(a); x.merge(m1)
    y = ORSet("n2"); y.merge(a2); y.merge(m1)
    if x.elements != y.elements:
        r.bad("orset_roundtrip_preserves_merge", sorted(x.elements, key=repr), sorted(y.elements, key=repr))
    if use_int and a.elements:
        r.wit.add("int_elements_nonempty")
    r.obs = {"elements": sorted(a.elements, key=repr)}
    return r


def _rt_classify(clause, draws, obs):
    d = dict((k, v) for k, v in draws)
    if clause.startswith("orset_roundtrip_") and d.get("int_elements") == 1:
        return "orset-to_dict-stringifies-non-str-elements"
    return None


HARNESSES = [
    H(name="c18_clocks", fn=clocks, shape="S",
      cubes=lambda tier: [{"op0": a, "op1": b} for a in range(3 * (2 if tier == "quick" else 3)) for b in range(3 * (2 if tier == "quick" else 3))],
      budget=lambda tier: 300.0 if tier == "quick" else 1500.0,
      require=lambda tier: ["receive", "cross_node_causal_pair", "concurrent_pair"],
      functions=["LamportClock.tick/send/receive", "VectorClock.tick/send/receive/happened_before/is_concurrent",
                 "HybridLogicalClock.now/send/receive", "HLCTimestamp.__lt__"],
      bounds=lambda tier: {"nodes": 2 if tier == "quick" else 3, "steps": 4 if tier == "quick" else 5,
                           "initial_lamport": "symbolic [0,3]", "initial_vectors": "symbolic, consistent (own entry >= others' view)",
                           "physical_clock": "symbolic base [0,3] per node, symbolic increment [0,2] per step"},
      outside=["more than 3 nodes / 5 steps per history", "HLC driven by a NodeClock with drift model (readings are arbitrary non-decreasing ints here, which subsumes it)"]),
    H(name="c18_counter_laws", fn=counter_merge_laws, shape="I", budget=lambda tier: 300.0,
      cubes=lambda tier: [{"a_has0": x, "a_has1": y} for x in (0, 1) for y in (0, 1)],
      require=lambda tier: ["states_differ"],
      functions=["GCounter.merge/value/node_value", "PNCounter.merge/to_dict/from_dict/__eq__"],
      bounds=lambda tier: {"replica_states": "3 arbitrary states over 3 node ids, counts symbolic [0,3], keys optionally absent"}),
    H(name="c18_counter_script", fn=counter_script, shape="S",
      cubes=lambda tier: [{"op0": a, "rep0": b} for a in range(4) for b in range(3)],
      budget=lambda tier: 300.0 if tier == "quick" else 1500.0,
      require=lambda tier: ["merge", "merge_via_dict"],
      functions=["PNCounter.increment/decrement/merge/value", "GCounter.increment/merge"],
      bounds=lambda tier: {"replicas": 3, "ops": 4 if tier == "quick" else 5, "amounts": "symbolic [1,5]"}),
    H(name="c18_lww", fn=lww, shape="I", budget=lambda tier: 300.0,
      cubes=lambda tier: [{"at0": a, "at1": b} for a in range(3) for b in range(3)],
      require=lambda tier: ["tie_broken_by_node_id"],
      functions=["LWWRegister.set/merge/to_dict/from_dict", "HLCTimestamp.__lt__/__eq__"],
      bounds=lambda tier: {"writes": 3, "timestamps": "symbolic (physical [0,2], logical [0,2], node in 2)", "replicas": 3}),
    H(name="c18_orset", fn=orset, shape="S",
      cubes=lambda tier: [{"op0": a, "op1": b} for a in range(4) for b in range(4)],
      budget=lambda tier: 300.0 if tier == "quick" else 1500.0, classify=orset_classify,
      require=lambda tier: ["merge_carries_removal_of_known_add"],
      functions=["ORSet.add/remove/merge/contains/elements/__eq__/to_dict/from_dict"],
      bounds=lambda tier: {"replicas": 2 if tier == "quick" else 3, "ops": 4 if tier == "quick" else 5, "elements": 2},
      outside=["more than 3 replicas", "scripts longer than 5 operations"]),
    H(name="c18_orset_roundtrip", fn=orset_roundtrip, shape="I", budget=lambda tier: 300.0, classify=_rt_classify,
      cubes=lambda tier: [{"int_elements": x, "op0": a} for x in (0, 1) for a in range(3)],
      functions=["ORSet.to_dict/from_dict"],
      bounds=lambda tier: {"ops": 3, "element types": ["str", "int"]}),
]
