"""C01 — every live event delivered exactly once, in (time, creation) order; clock; cancel; termination.

Scenario harness: a small program (pre-run events + a spawn table executed by the
handlers) with symbolic timestamps/offsets is run on the real Simulation, and its
delivery log is compared with a reference interpreter of the *stated* semantics
executed on the same path.
"""
from __future__ import annotations

from happysimulator.core.event import Event
from happysimulator.core.simulation import Simulation
from happysimulator.core.temporal import Instant

from harness.common import Recorder, mk_event
from vf.harness import H
from vf.sym import Result

DELAYS = [0.0, 1e-9, 2e-9]          # concrete generator delays (seconds) -> 0,1,2 ns
DELAY_NS = [0, 1, 2]
NKINDS = 5                          # 0 none 1 one child 2 two children 3 generator 4 cancel-other + child


def _params(sym, tier, with_unscheduled=False):
    n = 3
    T = 2
    P = {"n": n, "T": T}
    # events that are created (they take a creation index) but never scheduled
    P["unscheduled"] = 2 * sym.choice("unscheduled_events_created", 2) if with_unscheduled else 0
    P["mode"] = sym.choice("mode", 3)               # 0 no end_time (auto-terminate), 1 end_time fast loop, 2 end_time + control (instrumented loop)
    P["kind"] = [sym.choice("kind0", NKINDS), sym.choice("kind1", NKINDS)] + [0] * (n - 2)
    auto = P["mode"] == 0
    P["t"] = [sym.int(f"t{i}", 0, T) for i in range(n)]
    # daemon flags only matter for auto-termination; with an end_time one flag is kept to show irrelevance
    P["daemon"] = [False] + [sym.bool(f"daemon{i}") if (auto or i == n - 1) else False for i in range(1, n)]
    P["cancel"] = [False] + [sym.bool("cancel1")] + [False] * (n - 2)
    P["end"] = sym.int("end", 0, T + 2) if not auto else None
    P["d"] = {}
    P["cd"] = {}
    P["gsel"] = {}
    dhi = 1
    for i in (0, 1):
        k = P["kind"][i]
        if k in (1, 4):
            P["d"][i] = [sym.int(f"d{i}a", -1, dhi)]
            P["cd"][i] = [sym.bool(f"cdm{i}a") if auto else False]
        elif k in (2, 3):
            P["d"][i] = [sym.int(f"d{i}a", -1, dhi), sym.int(f"d{i}b", 0, dhi)]
            P["cd"][i] = [sym.bool(f"cdm{i}a") if auto else False, False]
            if k == 3:
                P["gsel"][i] = sym.choice(f"gdelay{i}", len(DELAYS))
    return P


# ---------------------------------------------------------------- reference
def reference(P, lax):
    """Reference interpreter of the stated semantics.  Returns (expected log,
    tolerated over-horizon extra label or None, facts)."""
    n, end = P["n"], P["end"]
    auto = P["mode"] == 0
    seq = [0]
    pending = []
    facts = set()

    def new(label, t, daemon, kind="event", idx=None):
        it = {"label": label, "t": t, "seq": seq[0], "daemon": daemon, "cancelled": False, "kind": kind, "idx": idx}
        seq[0] += 1
        pending.append(it)
        return it

    pre = [new(f"p{i}", P["t"][i], P["daemon"][i], idx=i) for i in range(n)]
    for i in range(n):
        if P["cancel"][i]:
            pre[i]["cancelled"] = True
    now = 0
    out = []
    extra = None
    while pending:
        if auto and not any((not x["daemon"]) and (lax or not x["cancelled"]) for x in pending):
            if any(x["daemon"] and not x["cancelled"] for x in pending):
                facts.add("daemons_left_pending")
            break
        x = pending[0]
        for y in pending[1:]:
            if y["t"] < x["t"] or (y["t"] == x["t"] and y["seq"] < x["seq"]):
                x = y
        pending.remove(x)
        if x["cancelled"]:
            facts.add("cancelled_skipped")
            continue
        if x["t"] < now:
            facts.add("past_dated_discarded")
            continue
        if end is not None and x["t"] > end:
            extra = x["label"]
            facts.add("over_horizon")
            break
        for y in pending:
            if y["t"] == x["t"] and not y["cancelled"]:
                facts.add("tie")
                if (x["label"].count(".") > 0) != (y["label"].count(".") > 0):
                    facts.add("tie_prerun_vs_runcreated")
        now = x["t"]
        if x["kind"] == "resume":
            out.append((x["label"], "resume", now))
            i = x["idx"]
            new(f"p{i}.f", now + P["d"][i][1], P["cd"][i][1])
            continue
        out.append((x["label"], "deliver", now))
        i = x["idx"]
        if i is None or i > 1:
            continue
        k = P["kind"][i]
        if k == 1:
            new(f"p{i}.a", now + P["d"][i][0], P["cd"][i][0])
        elif k == 2:
            new(f"p{i}.a", now + P["d"][i][0], P["cd"][i][0])
            new(f"p{i}.b", now + P["d"][i][1], P["cd"][i][1])
        elif k == 3:
            new(f"p{i}.a", now + P["d"][i][0], P["cd"][i][0])
            new(f"p{i}", now + DELAY_NS[P["gsel"][i]], x["daemon"], kind="resume", idx=i)
        elif k == 4:
            j = (i + 1) % n
            pre[j]["cancelled"] = True
            new(f"p{i}.a", now + P["d"][i][0], P["cd"][i][0])
    return out, extra, facts


# ---------------------------------------------------------------- the real run
class Model:
    """The scenario program bound to fresh recording entities (also used by C03/C04)."""

    def __init__(self, P):
        self.P = P
        self.log = []
        self.pre = []
        P_ = P
        log = self.log
        pre = self.pre
        n = P["n"]

        def behaviour(ent, event, label):
            P = P_
            if not label.startswith("p") or "." in label:
                return None
            i = int(label[1:])
            if i > 1:
                return None
            k = P["kind"][i]
            now = ent.now.nanoseconds
            other = self.ents[(i + 1) % 2]
            if k == 0:
                return None
            if k == 1:
                return mk_event(now + P["d"][i][0], f"p{i}.a", other, P["cd"][i][0])
            if k == 2:
                return [mk_event(now + P["d"][i][0], f"p{i}.a", other, P["cd"][i][0]),
                        mk_event(now + P["d"][i][1], f"p{i}.b", ent, P["cd"][i][1])]
            if k == 3:
                def gen():
                    side = mk_event(now + P["d"][i][0], f"p{i}.a", other, P["cd"][i][0])
                    yield DELAYS[P["gsel"][i]], [side]
                    log.append((label, "resume", None, ent.now.nanoseconds, ent.name))
                    return [mk_event(ent.now.nanoseconds + P["d"][i][1], f"p{i}.f", other, P["cd"][i][1])]
                return gen()
            if k == 4:
                pre[(i + 1) % n].cancel()
                return mk_event(now + P["d"][i][0], f"p{i}.a", other, P["cd"][i][0])
            return None

        self.ents = [Recorder("e0", log, behaviour), Recorder("e1", log, behaviour)]

    def make_sim(self, **kw):
        P = self.P
        end = None if P["end"] is None else Instant(P["end"])
        self.sim = Simulation(entities=self.ents, end_time=end, **kw)
        return self.sim

    def schedule(self):
        P = self.P
        for i in range(P["n"]):
            self.pre.append(mk_event(P["t"][i], f"p{i}", self.ents[i % 2], P["daemon"][i]))
            if i == 0:
                for _j in range(P.get("unscheduled", 0)):
                    mk_event(0, "never_scheduled", self.ents[0])
        self.sim.schedule(self.pre)
        for i in range(P["n"]):
            if P["cancel"][i]:
                self.pre[i].cancel()

    def deliveries(self):
        return [(l, what, clk) for (l, what, _t, clk, _e) in self.log]


def scenario(sym, tier):
    r = Result()
    P = _params(sym, tier, with_unscheduled=True)
    n = P["n"]
    m = Model(P)
    sim = m.make_sim()
    if P["mode"] == 2:
        sim.control  # attaching the control surface selects the instrumented loop
    m.schedule()
    sim.run()
    log = m.log

    # ---- oracle --------------------------------------------------------
    got = [(l, what, clk) for (l, what, _t, clk, _e) in log]
    for (l, what, t, clk, _e) in log:
        if what == "deliver" and t != clk:
            r.bad("clock_equals_event_time", l, t, clk)
    last = None
    for (_l, _w, clk) in got:
        if last is not None and clk < last:
            r.bad("clock_monotone", last, clk)
        last = clk
    accepted = False
    exps = []
    facts = set()
    for lax in (False, True):
        exp, extra, f = reference(P, lax)
        exps.append(exp)
        facts |= f
        if got == exp or (extra is not None and got[: len(exp)] == exp and len(got) == len(exp) + 1 and got[-1][0] == extra):
            accepted = True
            if extra is not None and len(got) == len(exp) + 1:
                r.wit.add("over_horizon_event_delivered_by_impl")
            break
        if not (P["mode"] == 0 and any(P["cancel"]) or P["kind"][0] == 4 or P["kind"][1] == 4):
            break
    if not accepted:
        r.bad("delivery_sequence", {"got": got, "expected": exps[0]})
    r.wit |= facts
    r.obs = {"log": got}
    return r


def classify(clause, draws, obs):
    return None


# ---------------------------------------------------------------- Event.__lt__ lemma
def lt_lemma(sym, tier):
    """Event.__lt__ is the strict lexicographic order on (time, creation index),
    also against Instant.Infinity; Instant ==/hash consistent."""
    from harness.common import Recorder
    r = Result()
    ent = Recorder("x", [])
    evs = []
    keys = []
    for i in range(3):
        inf = sym.bool(f"inf{i}")
        t = sym.int(f"t{i}", 0, 3)
        idx = sym.int(f"idx{i}", 0, 3)
        e = Event(time=Instant.Infinity if inf else Instant(t), event_type="e", target=ent)
        e._sort_index = idx
        evs.append(e)
        keys.append((1 if inf else 0, 0 if inf else t, idx))
    for a in range(3):
        for b in range(3):
            if (evs[a] < evs[b]) != (keys[a] < keys[b]):
                r.bad("lt_is_lexicographic", keys[a], keys[b])
    if keys[0][:2] == keys[1][:2]:
        r.wit.add("equal_times")
        if not (evs[0].time == evs[1].time) or hash(evs[0].time) != hash(evs[1].time):
            r.bad("instant_eq_hash", keys[0], keys[1])
    return r


_NOFLAGS = {"daemon1": 0, "daemon2": 0, "cancel1": 0, "cdm0a": 0, "cdm1a": 0}


def _cubes(tier):
    if tier == "thorough":
        # every mode x every pair of handler kinds; with an end_time the daemon/cancel flags that cannot matter are fixed,
        # without one the flag product is explored (split by daemon1 / generator delay to keep cubes small)
        out = []
        for a in range(NKINDS):
            for b in range(NKINDS):
                for m in (1, 2):
                    out.append({"mode": m, "kind0": a, "kind1": b, "cancel1": 0, "daemon2": 0, "unscheduled_events_created": 0})
                for d1 in range(2):
                    base = {"mode": 0, "kind0": a, "kind1": b, "daemon1": d1, "cdm1a": 0, "unscheduled_events_created": 0}
                    if a == 3:
                        out.extend(dict(base, gdelay0=g) for g in range(len(DELAYS)))
                    else:
                        out.append(base)
        # index gaps (events created but never scheduled) for the spawning kinds
        for m in range(3):
            for a in (1, 2, 3):
                out.append(dict(_NOFLAGS, mode=m, kind0=a, kind1=1, unscheduled_events_created=1))
        return out
    cubes = []
    # focus "order/ties": no daemon / pre-cancel flags
    for m in range(3):
        for a in (1, 2, 3):
            for b in (0, 1):
                if a == 3:
                    for g in range(len(DELAYS)):
                        cubes.append(dict(_NOFLAGS, mode=m, kind0=a, kind1=b, gdelay0=g))
                else:
                    cubes.append(dict(_NOFLAGS, mode=m, kind0=a, kind1=b))
    # focus "auto-termination with daemons": flags free
    for a in (0, 1):
        for b in (0, 1):
            cubes.append({"mode": 0, "kind0": a, "kind1": b, "cancel1": 0})
    # focus "cancellation" (before the run and by a handler)
    for m in range(3):
        cubes.append({"mode": m, "kind0": 4, "kind1": 0, "daemon1": 0, "cdm0a": 0})
        cubes.append({"mode": m, "kind0": 0, "kind1": 4, "daemon1": 0, "cdm1a": 0})
        cubes.append({"mode": m, "kind0": 1, "kind1": 0, "daemon1": 0, "daemon2": 0, "cdm0a": 0})
    return cubes


HARNESSES = [
    H(
        name="c01_scenario", fn=scenario, shape="S", cubes=_cubes,
        budget=lambda tier: 600.0 if tier == "quick" else 3000.0,
        require=lambda tier: ["tie", "tie_prerun_vs_runcreated", "cancelled_skipped", "past_dated_discarded",
                              "over_horizon", "daemons_left_pending"],
        classify=classify,
        functions=["Simulation.__init__", "Simulation.schedule", "Simulation.run", "Simulation._run_loop",
                   "Simulation._execute_until", "Simulation._run_loop_fast", "Simulation._advance_time",
                   "Simulation._push_new_events", "EventHeap.push", "EventHeap.pop", "EventHeap.has_primary_events",
                   "Event.__init__", "Event.__lt__", "Event.invoke", "Event.cancel", "ProcessContinuation.invoke",
                   "Instant.__lt__/__eq__/__add__", "Clock.update"],
        bounds=lambda tier: {"pre_run_events": 3, "unscheduled events created in between": [0, 2], "time_range_ns": [0, 2], "flag combinations": "quick: three focused families (order / daemons / cancellation); thorough: full product",
                             "spawning_handlers": 2, "children_per_handler": "<=2 (+1 process continuation)",
                             "child_offset_ns": [-1, 1], "end_time": "none | Instant(e), e in [0,T+2]",
                             "loops": ["instrumented+auto-terminate", "fast", "instrumented+end_time"]},
        outside=["more than 3 pre-run + 5 run-created events in one run", "handlers emitting more than 2 events",
                 "children that themselves spawn", "what happens to events later than end_time (not judged; the first such "
                 "event is delivered by both loops and is tolerated by the oracle)",
                 "whether a cancelled non-daemon event still counts as pending for auto-termination (both readings accepted)",
                 "events scheduled from outside while the run is paused"],
        assumptions=["entities are created before Simulation(...) and events after it (documented usage)"],
    ),
    H(
        name="c01_event_lt", fn=lt_lemma, shape="K",
        budget=lambda tier: 300.0, require=lambda tier: ["equal_times"],
        functions=["Event.__lt__", "Instant.__eq__/__lt__/__hash__", "_InfiniteInstant.__eq__/__lt__"],
        bounds=lambda tier: {"events": 3, "time/index": "symbolic ints, ordering classes over [0,3], Infinity flag"},
    ),
]
