#!/usr/bin/env python3
"""Writes seeded/RESULTS.md from seeded/*/meta.json, patch.diff and check_quick.log."""
import glob, json, os, re

ROOT = os.path.dirname(os.path.dirname(os.path.abspath(__file__)))
rows = []
FIRST = json.load(open(os.path.join(ROOT, "seeded", "first_attempts.json")))
for d in sorted(glob.glob(os.path.join(ROOT, "seeded", "C*"))):
    mp = os.path.join(d, "meta.json")
    if not os.path.exists(mp):
        continue
    m = json.load(open(mp))
    name = os.path.basename(d)
    patch = open(os.path.join(d, "patch.diff")).read() if os.path.exists(os.path.join(d, "patch.diff")) else ""
    files = sorted(set(re.findall(r"^\+\+\+ b/(\S+)", patch, re.M)))
    log = open(os.path.join(d, "check_quick.log")).read() if os.path.exists(os.path.join(d, "check_quick.log")) else ""
    refuted = re.findall(r"^\[C\d+/quick\] (\S+)\s+REFUTED", log, re.M)
    clauses = []
    for mm in re.finditer(r"violated clauses \((\S+)\): ([a-zA-Z0-9_]+)", log):
        c = f"{mm.group(1)}: {mm.group(2)}"
        if c not in clauses:
            clauses.append(c)
    notes = open(os.path.join(d, "notes.md")).read() if os.path.exists(os.path.join(d, "notes.md")) else ""
    title = notes.strip().splitlines()[0].lstrip("# ").strip() if notes.strip() else ""
    hist = m.get("history") or [{"verif_commit": m.get("verif_commit", "?"), "check_exit": m["check_exit"], "check_seconds": m["check_seconds"]}]
    if name in FIRST and name.endswith("-r2"):
        hist = [{"verif_commit": "(as it stood when the change arrived)", "check_exit": 0, "check_seconds": "-", "note": FIRST[name]}] + hist
    elif name in FIRST:
        hist = [{"verif_commit": "before 1e031ed (dev run)", "check_exit": 0, "check_seconds": "-", "note": FIRST[name]}] + hist
    rows.append((name, m["property"], files, title, hist, refuted, clauses, m))

STRENGTHENED = {
    "C04": "pipeline stepping used arrivals within 1 ns, a 3 ns back stage and step counts <= 30; now arrivals spread over [0,3] ns, 8 ns back stage, front concurrency 1 or 2, k <= 60",
    "C10": "adaptive policy was exercised with one feedback before call 1 and 4 calls; added c10_adaptive_history (drain, feedback x2, idle gaps, burst of 9) - which also exposed a genuine defect on the unchanged tree (fixed: 39145e5)",
    "C13": "cluster runs never combined slow a<->b links with a transient 'suspect' rumour; added c13_probe_cycle",
    "C15": "crash_recovery has 2 writers x 2 writes, too few for a non-contiguous flushed sequence list; added the c15_wal_ops lemma over arbitrary log states",
    "C06-r2": "network faults only had two-way partitions; added one-way partitions and reverse-direction probes",
    "C08-r2": "no harness changed a concurrency limit at run time; added c08_dynamic_limit; the pipeline oracle also stopped accepting worker-side rejections, which exposed a genuine double-poll defect of the pinned tree (fixed: 5c5d251); the change was then ported onto the repaired driver (patch_ported.diff, demo_ported.py)",
    "C11-r2": "the leader handled the AppendEntries response before anything else could happen; added a client submit while the round trip is in flight",
    "C12-r2": "the acceptor lemma assumed 'promised >= accepted' of its pre-state but never asserted it of the post-state; the invariant is now checked for inductiveness",
    "C03-r2": "no harness looked for state shared between sketch instances; added c03_sketch_isolation (private module copy as the fresh-interpreter reference) and kept repo-defined lru caches live under CrossHair, which bypasses them by default",
    "C04-r2": "reset was only exercised with handlers that leave event metadata alone; added c04_reset_context (in-place mutation, shared or copied context) - whose nested-value cubes exposed a known finding on the unchanged tree",
    "C05-r2": "every pre-scheduled event was a primary event; daemon flags are now symbolic (a finite end_time delivers daemon events in both modes)",
    "C07-r2": "GarbageCollector was not among the C07 scenarios; added c07_gc_cycle with solver-chosen pauses around the collection interval",
    "C09-r2": "PreemptibleResource was not covered; added c09_preemptible_script - which exposed a genuine defect on the unchanged tree (fixed: 9dcb6fb); the change was then ported onto the repaired acquire() (patch_ported.diff)",
    "C18-r2": "three replicas appeared only in the thorough tier and with 4 operations; added c18_orset3 (every 5-step history on 3 replicas, merge laws on the reached states)",
    "C20-r2": "merge results were compared but the merge argument was never looked at again; merges must now leave their argument unchanged",
    "C15-r3": "every harness stopped at the first crash (recovering twice meant recovering twice in a row); added c15_second_crash: crash, recover, keep writing through a memtable flush, crash again at any phase-2 event",
    "C18": "HLC was always started from a fresh clock; now its initial (physical, logical) state is symbolic",
}
out = ["# Seeded regressions: what the checks catch", "",
       "Each row is one change written by an independent sub-agent that saw only the property text and a scratch worktree",
       "(nothing from /verif). For every row I confirmed: the demonstration exits 1 with the change and 0 without it, and the",
       "repository's suite (3002 tests) passes with the change. `exit` is the exit code of `./check <ID>` (quick tier) run on",
       "/repo with the change applied (`git -C /repo apply`), undone straight afterwards. A history with a 0 first means the",
       "check as it stood when the change arrived MISSED it and was strengthened afterwards (the strengthening is general:",
       "wider bounds or a new lemma/scenario, never a test for the specific change).", "",
       "| change | file | demo with/without | suite | check exit history (verif commit: exit, s) | refuted harnesses | first violated clauses |",
       "|---|---|---|---|---|---|---|"]
caught_first = missed_then_caught = still_missed = 0
for name, pid, files, title, hist, refuted, clauses, m in rows:
    h = "; ".join(f"{x['verif_commit']}: {x['check_exit']}, {x['check_seconds']} s" for x in hist)
    first, last = hist[0]["check_exit"], hist[-1]["check_exit"]
    if first == 1:
        caught_first += 1
    elif last == 1:
        missed_then_caught += 1
    else:
        still_missed += 1
    out.append(f"| {name} | {', '.join(f.replace('happysimulator/', '') for f in files)} | {m['demo_exit_with_change']}/{m['demo_exit_without_change']} | {m['suite_with_change']} | {h} | {', '.join(refuted) or '-'} | {'; '.join(clauses[:2]) or '-'} |")
out += ["", f"Totals: {len(rows)} changes; caught by the check as it stood: {caught_first}; missed first, caught after strengthening: {missed_then_caught}; not caught: {still_missed}.", ""]
out.append("## What was strengthened after a miss")
out.append("")
for name, pid, files, title, hist, refuted, clauses, m in rows:
    if hist[0]["check_exit"] != 1:
        out.append(f"- {name}: {hist[0].get('note') or STRENGTHENED.get(name, '(see DESIGN.md section 7)')}")
out.append("")
out.append("## What each change is and what it needs to manifest")
for name, pid, files, title, hist, refuted, clauses, m in rows:
    out.append(f"\n### {name} — {title}\n")
    out.append((m.get("needs_to_manifest") or open(os.path.join(ROOT, "seeded", name, "notes.md")).read() if os.path.exists(os.path.join(ROOT, "seeded", name, "notes.md")) else "").strip())
open(os.path.join(ROOT, "seeded", "RESULTS.md"), "w").write("\n".join(out) + "\n")
print(f"{len(rows)} rows; caught {caught_first}, strengthened {missed_then_caught}, missed {still_missed}")
