#!/usr/bin/env python3
"""Appends the as-built per-property section (generated from the harness modules) to DESIGN.md."""
import importlib, json, os, sys
ROOT = os.path.dirname(os.path.dirname(os.path.abspath(__file__)))
sys.path.insert(0, ROOT); sys.path.insert(0, "/repo")
props = [json.loads(l) for l in open(os.path.join(ROOT, "properties.jsonl"))]
CLAIM = json.load(open(os.path.join(ROOT, "tools", "claims.json")))
out = ["\n## 5. Per property, as built\n",
       "For each property: what is decided, by which harnesses (shape, what is symbolic, bounds of the quick tier; the thorough tier's bounds are in each harness's `bounds('thorough')` and in evidence), and what lies outside the claim.\n"]
for p in props:
    pid = p["id"]
    mod = importlib.import_module("harness." + pid.lower())
    out.append(f"\n### {pid} — {p['title']}\n")
    out.append(CLAIM.get(pid, "") + "\n")
    for h in mod.HARNESSES:
        b = h.bounds("quick")
        tiers = "" if len(h.tiers) == 2 else f" ({'/'.join(h.tiers)} only)"
        out.append(f"* `{h.name}` [{h.shape}]{tiers} — cubes quick/thorough: {len(h.cubes('quick'))}/{len(h.cubes('thorough'))}; bounds: " +
                   "; ".join(f"{k}: {v}" for k, v in b.items()))
        if h.functions:
            out.append(f"  code executed: {', '.join(h.functions)}")
    outside = sorted({o for h in mod.HARNESSES for o in h.outside})
    if outside:
        out.append("* **outside the claim**: " + "; ".join(outside))
tail = open(os.path.join(ROOT, "tools", "design_tail.md")).read()
doc = open(os.path.join(ROOT, "DESIGN.md")).read()
marker = "\n## 5. Per property, as built\n"
if marker in doc:
    doc = doc[:doc.index(marker)]
open(os.path.join(ROOT, "DESIGN.md"), "w").write(doc.rstrip("\n") + "\n" + "\n".join(out) + "\n" + tail)
print("DESIGN.md regenerated")
