#!/bin/sh
# Runs the repository's pinned test command (guard OFF) and prints pass/fail counts.
REPO=${1:-/repo}
X=$(mktemp /tmp/junit.XXXXXX.xml)
cd $REPO && env -u HAPPYSIM_VERIF /venv/bin/python -m pytest -ra -q -p no:cacheprovider --timeout=900 --continue-on-collection-errors --junitxml=$X >/dev/null 2>&1
python3 - <<PY
import xml.etree.ElementTree as ET
r=ET.parse('$X').getroot()
ts=r if r.tag=='testsuite' else r[0]
print({k:ts.get(k) for k in ('tests','failures','errors','skipped')})
for tc in ts.iter('testcase'):
    if tc.find('failure') is not None or tc.find('error') is not None: print('FAILED', tc.get('classname'), tc.get('name'))
PY
rm -f $X
