#!/usr/bin/env python3
"""Rewrites the two tables of DESIGN.md section 4 from known_findings.json (fixed defects, recorded findings)."""
import json, os, re
ROOT = os.path.dirname(os.path.dirname(os.path.abspath(__file__)))
d = json.load(open(os.path.join(ROOT, "known_findings.json")))
doc = open(os.path.join(ROOT, "DESIGN.md")).read()
rows = ["| property | commit | found by | what failed |", "|---|---|---|---|"]
for e in d["fixed"]:
    what = re.sub(r"^fixed: property=\S+ \S+ ", "", e["what"])
    rows.append(f"| {e['property']} | `{e['commit']}` | `{e.get('harness', '')}` | {what} |")
frows = ["| property | harness / key | finding |", "|---|---|---|"]
for e in d["findings"]:
    frows.append(f"| {e['property']} | {e['harness']} / `{e['key']}` | {e['what']} |")
a = doc.index("| property | commit |")
b = doc.index("Recorded, not repaired")
doc = doc[:a] + "\n".join(rows) + "\n\n" + doc[b:]
a = doc.index("| property | harness / key | finding |")
b = doc.index("False alarms of my own harnesses")
doc = doc[:a] + "\n".join(frows) + "\n\n" + doc[b:]
open(os.path.join(ROOT, "DESIGN.md"), "w").write(doc)
print(len(d["fixed"]), "fixed;", len(d["findings"]), "findings")
