#!/bin/bash
# usage: tools/suite_in_wt.sh <worktree>  -- run the repository's suite in a scratch worktree (with whatever change is applied there); prints "<tests> <failures> <errors>"
cd $1 || exit 9
X=$(mktemp /tmp/junit.XXXX.xml)
/venv/bin/python -m pytest -q -p no:cacheprovider --timeout=900 --junitxml=$X >/dev/null 2>&1
python3 -c "
import xml.etree.ElementTree as ET
r=ET.parse('$X').getroot(); ts=r if r.tag=='testsuite' else r[0]
print(ts.get('tests'), ts.get('failures'), ts.get('errors'))"; rm -f $X
