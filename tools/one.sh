#!/bin/sh
# dev helper: explore one cube.  usage: T=secs K='["key"]' tools/one.sh module harness cubeidx tier
cd /verif; OUT=$(mktemp /tmp/one.XXXXXX.json)
PYTHONPATH=/verif:${VERIF_REPO:-/repo} timeout ${T:-300} .venv/bin/python -m vf.worker $1 $2 $3 $4 $OUT "${K:-[]}"
python3 - <<PY
import json; d=json.load(open('$OUT'))
print(d.get('crash'))
print({k:d.get(k) for k in ['cube','paths','completed','ignored','unknown','exhausted','timed_out','cpu_s','witnesses','solver','unknown_reasons']})
for f in d.get('failures',[])[:2]: print('FAIL',json.dumps(f)[:${W:-1500}])
print('known',{k:v['count'] for k,v in d.get('known',{}).items()})
for e in d.get('errors',[])[:1]: print(e)
PY
rm -f $OUT
