#!/bin/bash
# usage: tools/try_seeded.sh <ID> [worktree]   -- verify an independently seeded regression and run the check against it
# 1. in the scratch worktree: suite green WITH the change, demo fails WITH / passes WITHOUT
# 2. copy patch.diff, demo.py, notes.md to /verif/seeded/<ID>/
# 3. apply to /repo, run ./check <ID> (quick), undo straight afterwards
# RECHECK=1 tools/try_seeded.sh <ID> - <outname> : only re-run the check against the stored patch (history kept in meta.json)
ID=$1; WT=${2:-/tmp/wt/$ID}; NAME=${3:-$ID}; OUT=/verif/seeded/$NAME; mkdir -p $OUT
if [ -n "$RECHECK" ]; then
cd /verif
git -C /repo apply $OUT/${PATCH:-patch.diff} || { echo "patch does not apply to /repo"; exit 9; }
T0=$(date +%s)
./check $ID > $OUT/check_quick.log 2>&1; RC=$?
T1=$(date +%s)
git -C /repo checkout -- .
git -C /repo status --short | head -3
echo "[$NAME] re-check exit=$RC in $((T1-T0)) s"; grep -E "VIOLATION|HARNESS-ERROR|INCONCLUSIVE|KNOWN" $OUT/check_quick.log | cut -c1-300 | head -4
python3 - <<PY
import json, subprocess
m=json.load(open("$OUT/meta.json"))
h=m.setdefault("history",[])
if not h: h.append({"verif_commit":m.get("verif_commit","(earlier harness version)"),"check_exit":m["check_exit"],"check_seconds":m["check_seconds"]})
c=subprocess.run(["git","-C","/verif","rev-parse","--short","HEAD"],capture_output=True,text=True).stdout.strip()
h.append({"verif_commit":c,"check_exit":$RC,"check_seconds":$((T1-T0)),"patch":"${PATCH:-patch.diff}"})
m["check_exit"]=$RC; m["check_seconds"]=$((T1-T0)); m["verif_commit"]=c
json.dump(m,open("$OUT/meta.json","w"),indent=1)
PY
exit 0
fi
cd $WT || exit 9
git diff -- happysimulator > $OUT/patch.diff
[ -s $OUT/patch.diff ] || { echo "no source change in $WT"; exit 9; }
cp _seeded/demo.py $OUT/demo.py 2>/dev/null; cp _seeded/notes.md $OUT/notes.md 2>/dev/null
/venv/bin/python _seeded/demo.py > $OUT/demo_with.txt 2>&1; DW=$?
git apply -R $OUT/patch.diff   # (not git stash: the stash is shared between worktrees)
/venv/bin/python _seeded/demo.py > $OUT/demo_without.txt 2>&1; DWO=$?
git apply $OUT/patch.diff
# SUITE_RESULT="<tests> <failures> <errors>": the suite was already run on this worktree with the change (tools/suite_in_wt.sh), do not repeat it
if [ -n "$SUITE_RESULT" ]; then SUITE="$SUITE_RESULT"; else
X=$(mktemp /tmp/junit.XXXX.xml)
/venv/bin/python -m pytest -q -p no:cacheprovider --timeout=900 --junitxml=$X >/dev/null 2>&1
SUITE=$(python3 -c "
import xml.etree.ElementTree as ET
r=ET.parse('$X').getroot(); ts=r if r.tag=='testsuite' else r[0]
print(ts.get('tests'), ts.get('failures'), ts.get('errors'))"); rm -f $X
fi
echo "[$ID] demo with change: exit $DW ; without: exit $DWO ; suite (tests failures errors): $SUITE"
cd /verif
git -C /repo apply $OUT/patch.diff || { echo "patch does not apply to /repo"; exit 9; }
T0=$(date +%s)
./check $ID > $OUT/check_quick.log 2>&1; RC=$?
T1=$(date +%s)
git -C /repo checkout -- .
git -C /repo status --short | head -3
echo "[$NAME] check exit=$RC in $((T1-T0)) s"; grep -E "VIOLATION|HARNESS-ERROR|INCONCLUSIVE|KNOWN" $OUT/check_quick.log | cut -c1-300 | head -6
python3 - <<PY
import json, subprocess, os
c=subprocess.run(["git","-C","/verif","rev-parse","--short","HEAD"],capture_output=True,text=True).stdout.strip()
notes=open("$OUT/notes.md").read() if os.path.exists("$OUT/notes.md") else ""
json.dump({"property":"$ID","verif_commit":c,"needs_to_manifest":notes,"demo_exit_with_change":$DW,"demo_exit_without_change":$DWO,"suite_with_change":"$SUITE",
 "check_cmd":"./check $ID --tier quick","check_exit":$RC,"check_seconds":$((T1-T0)),
 "what_i_ran":"tools/try_seeded.sh: demo.py with and without the change in a scratch worktree, the full suite with the change, then git -C /repo apply patch.diff; ./check $ID; git -C /repo checkout -- ."},
 open("$OUT/meta.json","w"),indent=1)
PY
