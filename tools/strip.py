import sys, ast, io, tokenize
# strip docstrings & blank lines from a python file, print with original line numbers
src=open(sys.argv[1]).read()
tree=ast.parse(src)
doc_lines=set()
for node in ast.walk(tree):
    if isinstance(node,(ast.FunctionDef,ast.ClassDef,ast.AsyncFunctionDef,ast.Module)):
        if node.body and isinstance(node.body[0],ast.Expr) and isinstance(getattr(node.body[0],'value',None),ast.Constant) and isinstance(node.body[0].value.value,str):
            for l in range(node.body[0].lineno,node.body[0].end_lineno+1): doc_lines.add(l)
lo=int(sys.argv[2]) if len(sys.argv)>2 else 1; hi=int(sys.argv[3]) if len(sys.argv)>3 else 10**9
for i,l in enumerate(src.splitlines(),1):
    if i in doc_lines or not l.strip() or i<lo or i>hi: continue
    print(f"{i}:{l}")
