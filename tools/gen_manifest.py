#!/usr/bin/env python3
"""Regenerates /verif/MANIFEST.json from the harness modules present (harness/cXX.py, each with a
MANIFEST dict) -- keeps claimed checks and the not_applicable list in step with what exists."""
import importlib
import json
import os
import sys

ROOT = os.path.dirname(os.path.dirname(os.path.abspath(__file__)))
sys.path.insert(0, ROOT)
sys.path.insert(0, "/repo")
BASE = ("cd /repo && env -u HAPPYSIM_VERIF /venv/bin/python -m pytest -ra -q -p no:cacheprovider --timeout=900 "
        "--continue-on-collection-errors --junitxml=/tmp/happysim_baseline.junit.xml")
props = [json.loads(l) for l in open(os.path.join(ROOT, "properties.jsonl"))]
NA_REASONS = json.load(open(os.path.join(ROOT, "tools", "not_applicable.json")))
checks, na = [], []
VALIDATED = json.load(open(os.path.join(ROOT, "tools", "thorough_validated.json")))["validated"]
for p in props:
    pid = p["id"]
    path = os.path.join(ROOT, "harness", pid.lower() + ".py")
    if not os.path.exists(path) or pid in NA_REASONS.get("_withheld", []):
        na.append({"property_id": pid, "reason": NA_REASONS.get(pid, "no check registered for this property yet (see DESIGN.md)")})
        continue
    mod = importlib.import_module("harness." + pid.lower())
    m = getattr(mod, "MANIFEST", {})
    shapes = sorted({h.shape for h in mod.HARNESSES})
    claims = json.load(open(os.path.join(ROOT, "tools", "claims.json")))
    outside = sorted({o for h in mod.HARNESSES for o in h.outside})
    default_note = ("Trusted: CrossHair 0.0.110's interpreter model of CPython, z3, the harness oracle / reference model; floats that depend on "
                    "symbolic values are modelled as reals; stubs listed in the evidence file.")
    checks.append({
        "property_id": pid,
        "quick_cmd": f"./check {pid} --tier quick",
        "thorough_cmd": f"./check {pid} --tier thorough",
        "evidence_file": f"/verif/evidence/{pid}.json",
        "replay_cmd_template": "./check --replay {path}",
        "engine": "chx",
        "level_claimed": {
            "category": "model_checking",
            "text": m.get("text", "bounded symbolic model checking of the implementation (every feasible path of the real code within the stated bounds executed symbolically, branch feasibility decided by z3, counterexamples replayed on plain CPython). " + claims.get(pid, "")),
            "design_ref": m.get("design_ref", f"DESIGN.md §5 {pid}"),
        },
        "level_note": (m.get("note") or default_note) + (" OUTSIDE THE CLAIM: " + "; ".join(outside) if outside else "")
                      + (" THOROUGH TIER: validated end-to-end on the unchanged tree (tools/thorough_validated.json)." if pid in VALIDATED else
                         " THOROUGH TIER: its larger bounds were not validated end-to-end within the build window, so './check " + pid + " --tier thorough' explores the quick bounds (VERIF_FORCE_THOROUGH=1 selects the larger ones)."),
        "technique": m.get("technique", "symbolic execution of the real Python code (CrossHair 0.0.110 + z3), exhaustive over paths within stated bounds; harness shapes: " + ",".join(shapes)),
    })
manifest = {
    "version": 1,
    "setup_cmd": "sh /verif/setup.sh",
    "hooks": {
        "guard": "HAPPYSIM_VERIF",
        "enable": "no source hooks: harnesses attach from outside (instance attribute replacement, module attribute stubs listed in each evidence file); ./check exports HAPPYSIM_VERIF=1 for uniformity",
        "baseline_off_cmd": BASE,
        "source_commits": [],
        "add_only": True,
    },
    "engines": [
        {"name": "chx", "path": "/verif/vf", "serves_properties": [c["property_id"] for c in checks],
         "kind_free_text": "CrossHair path explorer over the repository's own classes: harness draws (timestamps, delays, op-codes, crash points, hash functions) are z3-backed symbolic values; per harness all cubes must exhaust with no unknown path; counterexample and sampled path models are replayed on plain CPython"},
    ],
    "checks": checks,
    "not_applicable": na,
    "notes": "exit codes of ./check: 0 held on everything explored, 1 VIOLATION (replay-confirmed, not in known_findings.json), 2 inconclusive (budget/solver unknown), 3 harness error. Genuine defects repaired in /repo are listed under 'fixed' in /verif/known_findings.json.",
}
json.dump(manifest, open(os.path.join(ROOT, "MANIFEST.json"), "w"), indent=1)
print("checks:", [c["property_id"] for c in checks], "na:", [n["property_id"] for n in na])
