#!/bin/sh
# Offline set-up: overlay venv on /venv with crosshair-tool from the local wheelhouse.
set -e
HERE="$(cd "$(dirname "$0")" && pwd)"
if [ -x "$HERE/.venv/bin/python" ] && "$HERE/.venv/bin/python" -c "import crosshair, z3, happysimulator" 2>/dev/null; then
  echo "setup: .venv ok"; exit 0
fi
rm -rf "$HERE/.venv"
/venv/bin/python -m venv "$HERE/.venv"
PYV=$("$HERE/.venv/bin/python" -c 'import sys; print(f"python{sys.version_info[0]}.{sys.version_info[1]}")')
printf '/venv/lib/%s/site-packages\n/repo\n' "$PYV" > "$HERE/.venv/lib/$PYV/site-packages/base.pth"
PIP_NO_INDEX=1 "$HERE/.venv/bin/python" -m pip install -q --no-index --find-links /opt/veriftools/wheels crosshair-tool
"$HERE/.venv/bin/python" -c "import crosshair, z3, happysimulator; print('setup: ok', crosshair.__version__, z3.get_version_string())"
