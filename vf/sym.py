"""Symbolic value source for harnesses.

A harness is an ordinary Python function ``fn(sym, tier) -> Result``.  Every value
the property quantifies over (timestamps, delays, op-codes, crash points, ...) is
obtained from ``sym``:

* under the engine (``vf.engine``) ``sym.int``/``sym.bool`` return CrossHair proxies
  backed by fresh z3 variables constrained to the stated range, so one executed
  path stands for every value that takes the same branches; ``sym.choice`` forks
  into concrete alternatives (used for op-codes / selectors into concrete tables);
* under replay (``vf.replay``) the same calls return the concrete values recorded
  from the solver's model, in the same order, on plain CPython with no CrossHair
  and no stubs.

The ordered list of draws is the complete description of a case: it is what is
written to evidence samples and counterexample files.
"""
from __future__ import annotations

from dataclasses import dataclass, field
from typing import Any


class ReplayDivergence(Exception):
    """The plain-Python replay asked for a different draw than the one recorded."""


@dataclass
class Result:
    """What a harness returns for one path."""

    fail: list = field(default_factory=list)      # violated oracle clauses ("clause: detail")
    wit: set = field(default_factory=set)         # names of interesting situations reached
    obs: Any = None                               # small JSON-able observation (for samples)

    def bad(self, clause: str, *detail) -> None:
        """Record a violated oracle clause.  ``detail`` objects are kept unformatted
        (they may be symbolic); the engine / replay realise and format them."""
        self.fail.append((clause, list(detail)))


def format_fail(item) -> str:
    import json

    if isinstance(item, str):
        return item
    clause, detail = item[0], item[1]
    if not detail:
        return str(clause)
    try:
        d = json.dumps(detail if len(detail) > 1 else detail[0], default=repr)
    except Exception:  # noqa: BLE001
        d = repr(detail)
    return f"{clause}: {d}"


class Sym:
    SYMBOLIC = "symbolic"
    REPLAY = "replay"

    def __init__(self, mode: str, forced: dict | None = None, recorded: list | None = None):
        self.mode = mode
        self.forced = dict(forced or {})
        self.recorded = list(recorded or [])
        self._pos = 0
        self.draws: list[tuple[str, Any]] = []
        self._names: dict[str, int] = {}

    # -- internals -----------------------------------------------------
    def _uniq(self, name: str) -> str:
        k = self._names.get(name, 0)
        self._names[name] = k + 1
        return name if k == 0 else f"{name}#{k}"

    def _replay_next(self, name: str, lo: int, hi: int):
        if self._pos >= len(self.recorded):
            raise ReplayDivergence(f"replay asked for extra draw {name!r}")
        rname, val = self.recorded[self._pos]
        self._pos += 1
        if rname != name:
            raise ReplayDivergence(f"replay draw {self._pos - 1}: expected {rname!r}, harness asked {name!r}")
        if not (lo <= int(val) <= hi):
            raise ReplayDivergence(f"recorded {name}={val} outside [{lo},{hi}]")
        return val

    # -- public --------------------------------------------------------
    def _int(self, name: str, lo: int, hi: int):
        """Returns (value, is_symbolic)."""
        name = self._uniq(name)
        if self.mode == Sym.REPLAY:
            v = int(self._replay_next(name, lo, hi))
            self.draws.append((name, v))
            return v, False
        if name in self.forced:
            v = int(self.forced[name])
            if not (lo <= v <= hi):
                raise AssertionError(f"forced {name}={v} outside [{lo},{hi}]")
            self.draws.append((name, v))
            return v, False
        if lo == hi:
            self.draws.append((name, lo))
            return lo, False
        from vf.engine import fresh_int

        v = fresh_int(name, lo, hi)
        self.draws.append((name, v))
        return v, True

    def int(self, name: str, lo: int, hi: int):
        """An arbitrary integer in [lo, hi] (symbolic under the engine)."""
        return self._int(name, lo, hi)[0]

    def bool(self, name: str) -> bool:
        """An arbitrary boolean; forks into the two concrete values."""
        return self.choice(name, 2) == 1

    def choice(self, name: str, n: int) -> int:
        """A selector in range(n); the engine forks so the result is concrete."""
        v, symbolic = self._int(name, 0, n - 1)
        if not symbolic:
            return v
        for k in range(n - 1):
            if v == k:
                return k
        return n - 1

    def pick(self, name: str, table: list):
        """One element of a concrete table (forks)."""
        return table[self.choice(name, len(table))]
