"""Parent process of a check: schedules harness cubes on the cores, replays
counterexamples and samples on plain CPython, matches known findings, writes evidence.

exit codes: 0 property held on everything explored (all cubes exhausted, no unknown path)
            1 replay-confirmed violation not listed in known_findings.json
            2 inconclusive (budget exhausted / solver unknown)  -- never reported as success
            3 harness error (counterexample did not replay, vacuous harness, worker crash)
"""
from __future__ import annotations

import concurrent.futures as cf
import hashlib
import importlib
import json
import os
import random
import subprocess
import sys
import tempfile
import time

ROOT = os.path.dirname(os.path.dirname(os.path.abspath(__file__)))
PY = sys.executable


def _env():
    env = dict(os.environ)
    env["PYTHONPATH"] = ROOT + os.pathsep + os.environ.get("VERIF_REPO", "/repo") + os.pathsep + env.get("PYTHONPATH", "")
    env["PYTHONHASHSEED"] = env.get("VERIF_HASHSEED", "0")
    env.setdefault("HAPPYSIM_VERIF", "1")
    return env


def load_known(pid):
    path = os.path.join(ROOT, "known_findings.json")
    if not os.path.exists(path):
        return {}
    data = json.load(open(path))
    out = {}
    for e in data.get("findings", []):
        if e["property"] == pid:
            out.setdefault(e["harness"], {})[e["key"]] = e
    return out


def _run_worker(modname, h, idx, tier, known_keys, tmpdir):
    outpath = os.path.join(tmpdir, f"{h.name}-{idx}.json")
    wall_cap = float(h.budget(tier)) * 4 + 300
    t0 = time.time()
    try:
        p = subprocess.run(
            [PY, "-m", "vf.worker", modname, h.name, str(idx), tier, outpath, json.dumps(sorted(known_keys))],
            cwd=ROOT, env=_env(), capture_output=True, text=True, timeout=wall_cap,
        )
        err = p.stderr[-2000:]
    except subprocess.TimeoutExpired:
        return {"harness": h.name, "cube_index": idx, "crash": f"worker wall timeout {wall_cap}s"}
    if not os.path.exists(outpath):
        return {"harness": h.name, "cube_index": idx, "crash": "no output: " + err}
    r = json.load(open(outpath))
    r["wall_s"] = round(time.time() - t0, 2)
    return r


def _replay_batch(cases, tmpdir):
    if not cases:
        return {"results": [], "functions": []}
    inp = os.path.join(tmpdir, "batch_in.json")
    outp = os.path.join(tmpdir, "batch_out.json")
    json.dump(cases, open(inp, "w"))
    p = subprocess.run([PY, "-m", "vf.replay", "--batch", inp, outp], cwd=ROOT, env=_env(),
                       capture_output=True, text=True, timeout=1800)
    if not os.path.exists(outp):
        return {"results": [{"divergence": "replay batch crashed: " + p.stderr[-1500:]}] * len(cases), "functions": []}
    return json.load(open(outp))


def run_property(pid: str, tier: str, only: str | None = None, jobs: int | None = None) -> int:
    t_wall = time.time()
    seed = int(os.environ.get("VERIF_SEED", "0") or 0)
    rng = random.Random(seed)
    modname = f"harness.{pid.lower()}"
    sys.path.insert(0, ROOT)
    mod = importlib.import_module(modname)
    harnesses = [h for h in mod.HARNESSES if tier in h.tiers and (only is None or h.name == only)]
    # A thorough tier is only used with its own (larger) bounds once it has been run end-to-end on the unchanged
    # tree within its budgets (tools/thorough_validated.json); otherwise it explores the quick bounds, and says so.
    requested_tier = tier
    tier_note = None
    if tier == "thorough" and not os.environ.get("VERIF_FORCE_THOROUGH"):
        try:
            validated_ids = json.load(open(os.path.join(ROOT, "tools", "thorough_validated.json")))["validated"]
        except Exception:
            validated_ids = {}
        if pid not in validated_ids:
            tier = "quick"
            tier_note = (f"thorough bounds of {pid} were not validated end-to-end within the build window; "
                         "this run explores the quick bounds (VERIF_FORCE_THOROUGH=1 uses the larger ones)")
            print(f"[{pid}/thorough] NOTE: {tier_note}")
    known = load_known(pid)
    jobs = jobs or int(os.environ.get("VERIF_JOBS", "0") or 0) or (os.cpu_count() or 4)
    tmpdir = tempfile.mkdtemp(prefix=f"vf-{pid}-", dir=os.environ.get("VERIF_TMP", None))
    work = []
    for h in harnesses:
        for idx, _cube in enumerate(h.cubes(tier)):
            work.append((h, idx))
    # longest budgets first
    work.sort(key=lambda w: -float(w[0].budget(tier)))
    results = {h.name: [] for h in harnesses}
    with cf.ThreadPoolExecutor(max_workers=jobs) as ex:
        futs = {ex.submit(_run_worker, modname, h, idx, tier, set(known.get(h.name, {})), tmpdir): (h, idx)
                for h, idx in work}
        for fu in cf.as_completed(futs):
            h, idx = futs[fu]
            results[h.name].append(fu.result())

    violations, inconclusive, errors, known_lines = [], [], [], []
    per_h = []
    all_samples = []
    tot = {"paths": 0, "completed": 0, "ignored": 0, "unknown": 0, "checks": 0, "sat": 0, "unsat": 0,
           "smt_unknown": 0, "solver_s": 0.0, "cpu_s": 0.0}
    stubs = set()
    replay_cases = []      # (kind, harness, payload)
    for h in harnesses:
        rs = sorted(results[h.name], key=lambda r: r["cube_index"])
        agg = {"harness": h.name, "shape": h.shape, "cubes": len(rs), "paths": 0, "completed": 0, "ignored": 0,
               "unknown": 0, "exhausted_cubes": 0, "witnesses": {}, "cpu_s": 0.0, "solver_checks": 0,
               "solver_s": 0.0, "bounds": h.bounds(tier), "budget_cpu_s_per_cube": float(h.budget(tier)),
               "max_cube_cpu_s": 0.0, "known": {}, "status": "DISCHARGED"}
        for r in rs:
            if "crash" in r:
                errors.append(f"{h.name} cube {r['cube_index']}: worker crash: {r['crash'][:1500]}")
                agg["status"] = "ERROR"
                continue
            for k in ("paths", "completed", "ignored", "unknown"):
                agg[k] += r[k]
                tot[k] += r[k]
            agg.setdefault("cube_detail", []).append({"cube": r.get("cube"), "paths": r["completed"], "cpu_s": r["cpu_s"],
                                                      "exhausted": r["exhausted"], "unknown": r["unknown"]})
            agg["cpu_s"] += r["cpu_s"]
            agg["max_cube_cpu_s"] = max(agg["max_cube_cpu_s"], r["cpu_s"])
            tot["cpu_s"] += r["cpu_s"]
            s = r["solver"]
            agg["solver_checks"] += s["checks"]
            agg["solver_s"] += s["time_s"]
            tot["checks"] += s["checks"]; tot["sat"] += s["sat"]; tot["unsat"] += s["unsat"]
            tot["smt_unknown"] += s["unknown"]; tot["solver_s"] += s["time_s"]
            stubs.update(r.get("stubs", []))
            for w, c in r["witnesses"].items():
                agg["witnesses"][w] = agg["witnesses"].get(w, 0) + c
            if r["exhausted"] and r["unknown"] == 0:
                agg["exhausted_cubes"] += 1
            elif not r["failures"]:
                why = "budget exhausted" if r["timed_out"] else "unknown paths: " + "; ".join(r["unknown_reasons"])[:600]
                inconclusive.append(f"{h.name} cube {r.get('cube')}: {why} (paths={r['paths']}, unknown={r['unknown']})")
                agg["status"] = "INCONCLUSIVE"
            for f in r["failures"]:
                replay_cases.append(("failure", h, dict(f, cube=r.get("cube"))))
            for key, kv in r["known"].items():
                a = agg["known"].setdefault(key, {"count": 0, "sample": kv["sample"]})
                a["count"] += kv["count"]
            for smp in r["samples"]:
                all_samples.append((h, smp))
        for key, kv in agg["known"].items():
            replay_cases.append(("known", h, dict(kv["sample"], key=key)))
        missing = [w for w in h.require(tier) if agg["witnesses"].get(w, 0) == 0]
        if missing and agg["status"] == "DISCHARGED":
            errors.append(f"{h.name}: vacuity guard: witness situations never reached: {missing}")
            agg["status"] = "ERROR"
        agg["missing_witnesses"] = missing
        agg["cpu_s"] = round(agg["cpu_s"], 2); agg["solver_s"] = round(agg["solver_s"], 2)
        per_h.append(agg)

    # ---- replay on plain CPython ------------------------------------
    n_rep = int(os.environ.get("VERIF_REPLAY_SAMPLES", "24" if tier == "quick" else "60"))
    by_h = {}
    for h, smp in all_samples:
        by_h.setdefault(h.name, []).append((h, smp))
    chosen = []
    for hn, lst in by_h.items():
        rng.shuffle(lst)
        lst.sort(key=lambda hs: -len(hs[1]["wit"]))
        chosen.extend(lst[: max(2, n_rep // max(1, len(by_h)))])
    batch = []
    meta = []
    for kind, h, payload in replay_cases:
        batch.append({"module": modname, "harness": h.name, "tier": tier, "draws": payload["draws"], "property": pid})
        meta.append((kind, h, payload))
    for h, smp in chosen:
        batch.append({"module": modname, "harness": h.name, "tier": tier, "draws": smp["draws"], "property": pid})
        meta.append(("sample", h, smp))
    rep = _replay_batch(batch, tmpdir)
    validated = 0
    samples_out = []
    os.makedirs(os.path.join(ROOT, "replays", pid), exist_ok=True)
    for (kind, h, payload), res in zip(meta, rep["results"]):
        if kind == "sample":
            if "divergence" in res:
                errors.append(f"{h.name}: sample replay diverged: {res['divergence']} draws={payload['draws']}")
            elif [f for f, k in zip(res["fail"], res.get("keys", [None] * len(res["fail"]))) if not (k is not None and k in known.get(h.name, {}))]:
                # the real code, run on plain CPython with these inputs, breaks a clause that the symbolic run of the same
                # path did not break: the violation is real (reproduced), the symbolic engine's model of some library call differs
                digest = hashlib.sha1(json.dumps(payload["draws"]).encode()).hexdigest()[:10]
                path = os.path.join(ROOT, "replays", pid, f"{h.name}-{digest}.json")
                json.dump({"property": pid, "module": modname, "harness": h.name, "tier": tier, "draws": payload["draws"],
                           "found_by": "plain-CPython replay of a sampled path (the symbolic run of this path did not fail)",
                           "replay_fail": res["fail"], "replay_obs": res["obs"]}, open(path, "w"), indent=1)
                violations.append((h.name, path, res["fail"]))
                for a in per_h:
                    if a["harness"] == h.name:
                        a["status"] = "REFUTED"
            elif res["fail"] or res["wit"] != payload["wit"] or res["obs"] != payload["obs"]:
                errors.append(f"{h.name}: symbolic and plain execution disagree on draws={payload['draws']}: "
                              f"plain fail={res['fail']} wit={res['wit']} obs={json.dumps(res['obs'])[:400]} / "
                              f"symbolic wit={payload['wit']} obs={json.dumps(payload['obs'])[:400]}")
            else:
                validated += 1
                if len(samples_out) < 10:
                    samples_out.append({"harness": h.name, "draws": payload["draws"], "witness": payload["wit"],
                                        "observed": payload["obs"], "verdict": "holds (symbolic path == plain replay)"})
        elif kind == "known":
            entry = known[h.name][payload["key"]]
            if "divergence" in res or payload["key"] not in res.get("keys", []):
                errors.append(f"{h.name}: known finding {payload['key']} sample did not replay: {res}")
            else:
                validated += 1
                known_lines.append(f"KNOWN-FINDING: property={pid} {entry['what']} "
                                   f"[harness={h.name} key={payload['key']} paths={[a for a in per_h if a['harness']==h.name][0]['known'][payload['key']]['count']}]")
        else:
            digest = hashlib.sha1(json.dumps(payload["draws"]).encode()).hexdigest()[:10]
            path = os.path.join(ROOT, "replays", pid, f"{h.name}-{digest}.json")
            case = {"property": pid, "module": modname, "harness": h.name, "tier": tier, "draws": payload["draws"],
                    "cube": payload.get("cube"), "symbolic_fail": payload["fail"], "symbolic_obs": payload["obs"]}
            if "divergence" in res:
                errors.append(f"{h.name}: counterexample replay diverged ({res['divergence']}); draws={payload['draws']}")
                continue
            unl = [f for f, k in zip(res["fail"], res["keys"]) if not (k is not None and k in known.get(h.name, {}))]
            if unl:
                case["replay_fail"] = res["fail"]
                case["replay_obs"] = res["obs"]
                json.dump(case, open(path, "w"), indent=1)
                violations.append((h.name, path, unl))
                for a in per_h:
                    if a["harness"] == h.name:
                        a["status"] = "REFUTED"
            else:
                errors.append(f"{h.name}: solver counterexample did NOT reproduce on plain CPython "
                              f"(symbolic: {payload['fail']}; replay: {res['fail']}); draws={payload['draws']}")

    # ---- evidence ------------------------------------------------------
    wall = round(time.time() - t_wall, 2)
    functions = rep.get("functions", [])
    obligations = sum(a["cubes"] for a in per_h)
    discharged = sum(a["exhausted_cubes"] for a in per_h if a["status"] == "DISCHARGED")
    ev = {
        "property_id": pid,
        "tier": requested_tier,
        "seed": seed,
        "level": "model_checking",
        "wall_s": wall,
        "violations": len(violations),
        "coverage": {
            "states": tot["completed"],
            "transitions": tot["checks"],
            "traces_validated_against_impl": validated,
            "samples": samples_out or [{"note": "no completed path"}],
            "explanation": "states = symbolic execution paths of the real code run to completion (each covers every "
                           "input value taking the same branches); transitions = z3 satisfiability queries that decided "
                           "branch feasibility; traces_validated = path models replayed on plain CPython (no CrossHair, no "
                           "stubs) with identical observations",
            "exhaustive": all(a["status"] == "DISCHARGED" for a in per_h) and bool(per_h),
            "obligations": obligations,
            "discharged": discharged,
            "paths_started": tot["paths"],
            "paths_ignored_by_assumption": tot["ignored"],
            "paths_unknown": tot["unknown"],
            "solver": {"engine": "z3 " + _z3_version(), "queries": tot["checks"], "sat": tot["sat"], "unsat": tot["unsat"],
                       "unknown": tot["smt_unknown"], "solver_s": round(tot["solver_s"], 2)},
            "cpu_s": round(tot["cpu_s"], 2),
            "harnesses": per_h,
            "functions_aimed_at": sorted({f for h in harnesses for f in h.functions}),
            "functions_executed_in_replays": functions,
            "outside_claim": sorted({o for h in harnesses for o in h.outside}),
            "known_findings_reported": known_lines,
            "inconclusive": inconclusive,
            "errors": errors,
            "tier_note": tier_note,
        },
        "assumptions": sorted(stubs | {a for h in harnesses for a in h.assumptions}),
    }
    # runs against a snapshot of the repository (VERIF_REPO, development only) do not overwrite the evidence of /repo
    ev_dir = os.environ.get("VERIF_EVIDENCE_DIR") or (os.path.join(ROOT, "evidence", "_snapshot_runs") if os.environ.get("VERIF_REPO") else os.path.join(ROOT, "evidence"))
    os.makedirs(ev_dir, exist_ok=True)
    json.dump(ev, open(os.path.join(ev_dir, f"{pid}.json"), "w"), indent=1)

    # ---- report --------------------------------------------------------
    for a in per_h:
        print(f"[{pid}/{tier}] {a['harness']:<28} {a['status']:<12} cubes={a['exhausted_cubes']}/{a['cubes']} paths={a['completed']}"
              f" ignored={a['ignored']} unknown={a['unknown']} queries={a['solver_checks']} cpu={a['cpu_s']}s"
              f" max_cube={a['max_cube_cpu_s']}/{a['budget_cpu_s_per_cube']}s wit={a['witnesses']}")
    print(f"[{pid}/{tier}] replays validated={validated} functions_executed={len(functions)} wall={wall}s")
    for line in known_lines:
        print(line)
    for e in errors:
        print("HARNESS-ERROR: " + e)
    for i in inconclusive:
        print("INCONCLUSIVE: " + i)
    cap = int(os.environ.get("VERIF_MAX_VIOLATION_LINES", "12"))
    for hn, path, unl in violations[:cap]:
        print(f"  violated clauses ({hn}): " + " | ".join(unl)[:1200])
        print(f"VIOLATION property={pid} replay={path}")
    if len(violations) > cap:
        print(f"  ... and {len(violations) - cap} more counterexamples (replay files under replays/{pid}/)")
    try:
        import shutil
        shutil.rmtree(tmpdir, ignore_errors=True)
    except Exception:
        pass
    if violations:
        return 1
    if errors:
        return 3
    if inconclusive:
        return 2
    return 0


def _z3_version():
    try:
        import z3
        return z3.get_version_string()
    except Exception:
        return "?"
