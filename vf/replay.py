"""Replay recorded cases on plain CPython against /repo's current code: no CrossHair,
no stubs.  usage:
  python -m vf.replay <case.json>                 one counterexample; exit 1 if it reproduces
  python -m vf.replay --batch <in.json> <out.json> many cases; writes per-case results
A case file: {"module":..., "harness":..., "tier":..., "draws":[[name,value],...], ...}
"""
from __future__ import annotations

import importlib
import json
import sys
import traceback

from vf.sym import ReplayDivergence, Result, Sym, format_fail


def _conv(o):
    if isinstance(o, bool) or o is None or isinstance(o, str):
        return o
    if isinstance(o, int):
        return int(o)
    if isinstance(o, float):
        return float(o)
    if isinstance(o, (set, frozenset)):
        return [_conv(i) for i in sorted(o, key=repr)]
    if isinstance(o, (list, tuple)):
        return [_conv(i) for i in o]
    if isinstance(o, dict):
        return {str(k): _conv(v) for k, v in o.items()}
    return repr(o)


def run_case(case, profile=None):
    mod = importlib.import_module(case["module"])
    h = next(x for x in mod.HARNESSES if x.name == case["harness"])
    sym = Sym(Sym.REPLAY, recorded=case["draws"])
    if profile is not None:
        sys.setprofile(profile)
    try:
        try:
            ret = h.fn(sym, case["tier"])
        except ReplayDivergence:
            raise
        except Exception as exc:  # noqa: BLE001
            ret = Result()
            ret.bad("exception", f"{type(exc).__name__}: {str(exc)[:300]}")
            ret.obs = {"traceback": traceback.format_exc()[-1500:]}
    finally:
        if profile is not None:
            sys.setprofile(None)
    if sym._pos != len(sym.recorded):
        raise ReplayDivergence(f"replay consumed {sym._pos} of {len(sym.recorded)} draws")
    fails = [format_fail(_conv(list(f)) if not isinstance(f, str) else f) for f in ret.fail]
    keys = []
    for f in fails:
        keys.append(h.classify(f, case["draws"], _conv(ret.obs)) if h.classify else None)
    return {"fail": fails, "keys": keys, "wit": sorted(str(w) for w in ret.wit), "obs": _conv(ret.obs)}


def main(argv):
    if argv and argv[0] == "--batch":
        cases = json.load(open(argv[1]))
        funcs = set()

        def prof(frame, event, arg):
            if event == "call":
                co = frame.f_code
                fn = co.co_filename
                i = fn.find("/happysimulator/")
                if i >= 0 and "/site-packages/" not in fn:
                    funcs.add(fn[i + 1:] + ":" + getattr(co, "co_qualname", co.co_name))

        results = []
        for c in cases:
            try:
                results.append(run_case(c, profile=prof))
            except ReplayDivergence as e:
                results.append({"divergence": str(e)})
            except BaseException as e:  # noqa: BLE001
                results.append({"divergence": f"{type(e).__name__}: {e}"})
        json.dump({"results": results, "functions": sorted(funcs)}, open(argv[2], "w"))
        return 0
    case = json.load(open(argv[0]))
    try:
        r = run_case(case)
    except ReplayDivergence as e:
        print(f"REPLAY-DIVERGED {e}")
        return 3
    print(json.dumps(r, indent=1)[:4000])
    if r["fail"]:
        print(f"REPRODUCED property={case.get('property')} harness={case['harness']}: " + "; ".join(r["fail"])[:1500])
        return 1
    print("NOT-REPRODUCED")
    return 0


if __name__ == "__main__":
    sys.setrecursionlimit(20000)
    sys.exit(main(sys.argv[1:]))
