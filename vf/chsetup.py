"""CrossHair set-up needed to execute happy-simulator symbolically (DESIGN.md §2).

Everything here is attached from the harness side; /repo is not modified.
``install()`` is called once per worker process *before* any path is explored.
``STUBS`` lists every replacement made, for the evidence file.
"""
from __future__ import annotations

import logging
import time

STUBS: list[str] = []
SOLVER = {"checks": 0, "sat": 0, "unsat": 0, "unknown": 0, "time_s": 0.0}
_installed = False


def _fix_isinstance() -> None:
    """isinstance(x, <runtime_checkable Protocol with data members>) makes CrossHair's
    patched isinstance call issubclass(), which raises TypeError for such protocols
    (happysimulator.core.protocols.Simulatable).  Fall back to the builtin."""
    import crosshair.core as core
    from crosshair.tracers import NoTracing

    orig = core._PATCH_REGISTRATIONS.get(isinstance)
    if orig is None:
        return

    def _isinstance(obj, types):
        try:
            return orig(obj, types)
        except TypeError:
            with NoTracing():
                return isinstance(obj, types)

    core._PATCH_REGISTRATIONS[isinstance] = _isinstance
    STUBS.append("crosshair isinstance patch: fall back to builtin isinstance on TypeError (Protocol with data members)")


def _real_floats_only() -> None:
    import crosshair.libimpl.builtinslib as bl

    bl._PYTYPE_TO_WRAPPER_TYPE[float] = ((bl.RealBasedSymbolicFloat, 1.0),)
    STUBS.append("symbolic floats modelled as reals (CrossHair RealBasedSymbolicFloat); harnesses keep property-relevant values integral")


def _count_solver() -> None:
    import z3

    orig_check = z3.Solver.check

    def check(self, *a):
        t0 = time.perf_counter()
        r = orig_check(self, *a)
        SOLVER["time_s"] += time.perf_counter() - t0
        SOLVER["checks"] += 1
        s = str(r)
        SOLVER[s if s in ("sat", "unsat") else "unknown"] += 1
        return r

    z3.Solver.check = check


class _CountingHandler(logging.Handler):
    def __init__(self):
        super().__init__(level=logging.CRITICAL + 1)


def _quiet_logging() -> None:
    """Library logging formats symbolic Instants (realising them).  Disable it: the
    checks observe behaviour through entity logs, never through log records."""
    logging.disable(logging.CRITICAL)
    STUBS.append("logging disabled for the run (logging.disable(CRITICAL)); isEnabledFor() is False so no record is formatted")


def _stub_summary() -> None:
    from happysimulator.core.simulation import Simulation

    from happysimulator.instrumentation.summary import SimulationSummary

    def _build_summary(self):
        return SimulationSummary(duration_s=0.0, total_events_processed=0, events_cancelled=0,
                                 events_per_second=0.0, wall_clock_seconds=0.0, entities={})

    Simulation._build_summary = _build_summary
    STUBS.append("Simulation._build_summary -> empty SimulationSummary (float statistics of the finished run; not the subject of any harness)")


def _serial_executor() -> None:
    """CrossHair traces one thread.  Partition windows are executed serially."""
    try:
        import happysimulator.parallel.coordinator as co
        import happysimulator.parallel.simulation as ps
    except Exception:
        return

    class _Fut:
        def __init__(self, fn, a, kw):
            self._exc = None
            self._res = None
            try:
                self._res = fn(*a, **kw)
            except Exception as e:  # noqa: BLE001
                self._exc = e

        def result(self, timeout=None):
            if self._exc is not None:
                raise self._exc
            return self._res

    class SerialExecutor:
        def __init__(self, *a, **kw):
            pass

        def __enter__(self):
            return self

        def __exit__(self, *a):
            return False

        def submit(self, fn, *a, **kw):
            return _Fut(fn, a, kw)

        def shutdown(self, *a, **kw):
            pass

    for mod in (co, ps):
        if hasattr(mod, "ThreadPoolExecutor"):
            mod.ThreadPoolExecutor = SerialExecutor
        if hasattr(mod, "as_completed"):
            mod.as_completed = lambda futs, timeout=None: list(futs)
    if True:
        STUBS.append("parallel.coordinator / parallel.simulation ThreadPoolExecutor -> serial executor (thread interleavings outside the claim)")


def _keep_repo_caches() -> None:
    """CrossHair bypasses every functools.lru_cache while tracing (calls __wrapped__ directly), which makes
    process-wide memoisation inside the code under test invisible.  Keep the bypass for everything except
    functions defined in happysimulator modules, whose caches are part of the behaviour being checked."""
    from functools import _lru_cache_wrapper

    from crosshair import core
    from crosshair.tracers import NoTracing

    orig = core._PATCH_REGISTRATIONS.get(_lru_cache_wrapper.__call__)
    if orig is None:
        return

    def call(self, *a, **kw):
        mod = getattr(getattr(self, "__wrapped__", None), "__module__", "") or ""
        if mod.startswith("happysimulator"):
            with NoTracing():
                return _lru_cache_wrapper.__call__(self, *a, **kw)
        return orig(self, *a, **kw)

    core._PATCH_REGISTRATIONS[_lru_cache_wrapper.__call__] = call
    STUBS.append("crosshair lru_cache bypass kept except for functions defined in happysimulator modules (their caches stay live; called untraced)")


def install() -> None:
    global _installed
    if _installed:
        return
    _installed = True
    import crosshair.core_and_libs  # noqa: F401  (registers patches)
    from crosshair.core_and_libs import _make_registrations

    _make_registrations()
    _fix_isinstance()
    _keep_repo_caches()
    _real_floats_only()
    _count_solver()
    _quiet_logging()
    _stub_summary()
    _serial_executor()
