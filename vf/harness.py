"""Harness descriptor."""
from __future__ import annotations

from dataclasses import dataclass, field
from typing import Callable


@dataclass
class H:
    name: str
    fn: Callable                      # fn(sym, tier) -> Result
    shape: str = "S"                  # S scenario / I inductive step / N non-interference / K kernel lemma
    cubes: Callable = lambda tier: [{}]      # tier -> list of {draw name: forced value}
    budget: Callable = lambda tier: 240.0    # CPU seconds per cube
    per_path_timeout: float = 60.0
    require: Callable = lambda tier: []      # witness names that must be reached (vacuity guard)
    classify: Callable | None = None         # (clause, draws, obs) -> finding key | None
    functions: list = field(default_factory=list)   # repo functions the harness is aimed at
    bounds: Callable = lambda tier: {}
    outside: list = field(default_factory=list)
    assumptions: list = field(default_factory=list)
    tiers: tuple = ("quick", "thorough")
