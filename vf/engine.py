"""Path exploration of a harness with CrossHair's symbolic interpreter + z3.

This is CrossHair's ``explore_paths`` loop (crosshair/core.py) re-stated so that the
caller sees every completed path: its realised draws (a model of the path
condition), the harness verdict, and whether the search tree was exhausted.

Verdict of one exploration:
  exhausted and unknown_paths == 0  -> every feasible path within the bounds ran
                                       (each branch feasibility decided by z3)
  otherwise                         -> inconclusive (never reported as success)
"""
from __future__ import annotations

import sys
import traceback
from time import process_time

import z3

from vf import chsetup
from vf.sym import Result, Sym, format_fail


def fresh_int(name: str, lo: int, hi: int):
    # Built directly (not through proxy_for_type) so that CrossHair's "premature
    # realisation" heuristic fork does not apply: the value stays symbolic.
    from crosshair.libimpl.builtinslib import SymbolicBoundedInt
    from crosshair.statespace import context_statespace
    from crosshair.tracers import NoTracing

    with NoTracing():
        space = context_statespace()
        v = SymbolicBoundedInt(name + space.uniq(), int, lo, hi)
    return v


def _realize_draws(draws):
    from crosshair.core import realize

    out = []
    for name, v in draws:
        r = realize(v)
        out.append([name, int(r)])
    return out


def _plain(x):
    """Deep-realise a small observation structure into JSON-able Python."""
    from crosshair.core import deep_realize

    x = deep_realize(x)

    def conv(o):
        if isinstance(o, bool) or o is None or isinstance(o, str):
            return o
        if isinstance(o, int):
            return int(o)
        if isinstance(o, float):
            return float(o)
        if isinstance(o, (list, tuple, set, frozenset)):
            return [conv(i) for i in (sorted(o, key=repr) if isinstance(o, (set, frozenset)) else o)]
        if isinstance(o, dict):
            return {str(k): conv(v) for k, v in o.items()}
        return repr(o)

    return conv(x)


def explore(
    body,
    *,
    forced: dict,
    budget_cpu_s: float,
    per_path_timeout: float,
    known_keys: set,
    classify,
    max_samples: int = 6,
    max_paths: int = 10**9,
):
    """Explore every path of ``body(sym) -> Result``.  Returns a dict (JSON-able)."""
    from crosshair.condition_parser import condition_parser
    from crosshair.core import ExceptionFilter, Patched
    from crosshair.options import DEFAULT_OPTIONS
    from crosshair.statespace import (
        CallAnalysis,
        RootNode,
        StateSpace,
        StateSpaceContext,
        VerificationStatus,
    )
    from crosshair.tracers import COMPOSITE_TRACER, NoTracing, ResumedTracing
    from crosshair.util import IgnoreAttempt, NotDeterministic, UnexploredPath

    chsetup.install()
    search_root = RootNode()
    out = {
        "paths": 0, "completed": 0, "ignored": 0, "unknown": 0, "exhausted": False,
        "timed_out": False, "witnesses": {}, "samples": [], "failures": [],
        "known": {}, "unknown_reasons": [], "errors": [],
    }
    t_start = process_time()
    deadline = t_start + budget_cpu_s
    stop = False
    while not stop:
        now = process_time()
        if now > deadline or out["paths"] >= max_paths:
            out["timed_out"] = True
            break
        out["paths"] += 1
        space = StateSpace(
            execution_deadline=now + per_path_timeout,
            model_check_timeout=per_path_timeout / 2,
            search_root=search_root,
        )
        with (
            condition_parser(DEFAULT_OPTIONS.analysis_kind),
            Patched(),
            COMPOSITE_TRACER,
            NoTracing(),
            StateSpaceContext(space),
        ):
            status = None
            try:
                sym = Sym(Sym.SYMBOLIC, forced=forced)
                ret = None
                with ExceptionFilter() as efilter, ResumedTracing():
                    ret = body(sym)
                if efilter.ignore:
                    out["ignored"] += 1
                    status = None
                else:
                    if efilter.user_exc is not None:
                        exc, stack = efilter.user_exc
                        if isinstance(exc, NotDeterministic):
                            raise exc
                        ret = Result()
                        tb = "".join(stack.format()[-6:])
                        ret.bad("exception", f"{type(exc).__name__}: {str(exc)[:300]}")
                        ret.obs = {"traceback": tb}
                    with ResumedTracing():
                        space.detach_path()
                        draws = _realize_draws(sym.draws)
                        fails = [format_fail(f) for f in _plain(list(ret.fail))]
                        wit = sorted(str(w) for w in _plain(list(ret.wit)))
                        obs = _plain(ret.obs)
                    out["completed"] += 1
                    status = VerificationStatus.CONFIRMED
                    for w in wit:
                        out["witnesses"][w] = out["witnesses"].get(w, 0) + 1
                    case = {"draws": draws, "fail": fails, "wit": wit, "obs": obs}
                    if fails:
                        unlisted = []
                        for f in fails:
                            key = classify(f, draws, obs) if classify else None
                            if key is not None and key in known_keys:
                                k = out["known"].setdefault(key, {"count": 0, "sample": case})
                                k["count"] += 1
                            else:
                                unlisted.append(f)
                        if unlisted:
                            case = dict(case, unlisted=unlisted)
                            out["failures"].append(case)
                            stop = True
                    elif len(out["samples"]) < max_samples or (wit and len(out["samples"]) < 3 * max_samples and
                                                                any(out["witnesses"][w] == 1 for w in wit)):
                        out["samples"].append(case)
            except IgnoreAttempt:
                out["ignored"] += 1
                status = None
            except UnexploredPath as e:
                out["unknown"] += 1
                status = VerificationStatus.UNKNOWN
                if len(out["unknown_reasons"]) < 5:
                    ctx = e.__context__
                    detail = " @ " + "".join([f for f in traceback.format_tb(e.__traceback__) if "/crosshair/" not in f][-4:])[-900:]
                    if ctx is not None:
                        detail += " <- " + "".join(traceback.format_exception(type(ctx), ctx, ctx.__traceback__))[-1200:]
                    out["unknown_reasons"].append(f"{type(e).__name__}: {e}{detail}")
            except NotDeterministic as e:
                out["unknown"] += 1
                status = VerificationStatus.UNKNOWN
                if len(out["unknown_reasons"]) < 5:
                    out["unknown_reasons"].append("NotDeterministic: " + str(e)[:300])
                    out["errors"].append(traceback.format_exc()[-1500:])
            _analysis, exhausted = space.bubble_status(CallAnalysis(status))
            if exhausted:
                out["exhausted"] = True
                break
    out["cpu_s"] = round(process_time() - t_start, 3)
    out["solver"] = dict(chsetup.SOLVER, time_s=round(chsetup.SOLVER["time_s"], 3))
    out["stubs"] = list(chsetup.STUBS)
    return out
