from __future__ import annotations

import argparse
import os
import subprocess
import sys

ROOT = os.path.dirname(os.path.dirname(os.path.abspath(__file__)))


def main():
    ap = argparse.ArgumentParser(prog="check")
    ap.add_argument("property", nargs="?")
    ap.add_argument("--tier", default=os.environ.get("VERIF_TIER") or "quick", choices=["quick", "thorough"])
    ap.add_argument("--only", default=None, help="run a single harness")
    ap.add_argument("--replay", default=None, help="replay a counterexample file on plain CPython")
    ap.add_argument("--jobs", type=int, default=None)
    a = ap.parse_args()
    sys.path.insert(0, ROOT)
    if a.replay:
        env = dict(os.environ, PYTHONPATH=ROOT + os.pathsep + os.environ.get("VERIF_REPO", "/repo"))
        return subprocess.call([sys.executable, "-m", "vf.replay", a.replay], cwd=ROOT, env=env)
    from vf.runner import run_property

    return run_property(a.property, a.tier, a.only, a.jobs)


if __name__ == "__main__":
    sys.exit(main())
