"""Subprocess entry: explore one cube of one harness.  usage:
python -m vf.worker <module> <harness> <cube index> <tier> <out.json> <known keys json>"""
from __future__ import annotations

import importlib
import json
import sys
import traceback


def main(argv):
    modname, hname, cube_idx, tier, outpath, known_json = argv
    cube_idx = int(cube_idx)
    res = {"harness": hname, "cube_index": cube_idx}
    try:
        from vf import chsetup

        chsetup.install()
        from vf.engine import explore

        mod = importlib.import_module(modname)
        h = next(x for x in mod.HARNESSES if x.name == hname)
        cube = h.cubes(tier)[cube_idx]
        res["cube"] = cube
        out = explore(
            lambda sym: h.fn(sym, tier),
            forced=cube,
            budget_cpu_s=float(h.budget(tier)),
            per_path_timeout=h.per_path_timeout,
            known_keys=set(json.loads(known_json)),
            classify=h.classify,
        )
        res.update(out)
    except BaseException as e:  # noqa: BLE001
        res["crash"] = f"{type(e).__name__}: {e}\n" + traceback.format_exc()[-3000:]
    with open(outpath, "w") as f:
        json.dump(res, f)


if __name__ == "__main__":
    sys.setrecursionlimit(20000)
    main(sys.argv[1:])
