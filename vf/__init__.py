"""vf — solver-based checking machinery for happy-simulator (see /verif/DESIGN.md)."""
